# Handler file for JOBLIB_VERIF_HOOKS (executed with exec() in every process of a C10 scenario).
# Fault plan: JSON in $VF_C10_PLAN:
#   {"dir": state dir, "faults": [{"call": k, "point": name, "victims": "first"|"all", "action": ...}, ...]}
# The scenario parent writes the index of the call in progress to <dir>/current_call.
import json
import os
import signal
import struct

_PLAN = json.loads(os.environ.get("VF_C10_PLAN", "{}") or "{}")
_DIR = _PLAN.get("dir")


def _signum(name):
    """'SIGKILL' -> signal.SIGKILL; 'SIGRTMIN+1' -> a real-time signal that has no member in signal.Signals."""
    import signal as _s
    if "+" in name:
        base, off = name.split("+")
        return getattr(_s, base) + int(off)
    return getattr(_s, name)


def _current_call():
    try:
        with open(os.path.join(_DIR, "current_call")) as f:
            return int(f.read().strip() or -1)
    except (OSError, ValueError):
        return -1


def _rank(tag):
    """Order of arrival (0, 1, ...) of this process at `tag`, across processes."""
    k = 0
    while True:
        try:
            fd = os.open(os.path.join(_DIR, "arrive-%s-%d" % (tag, k)), os.O_CREAT | os.O_EXCL | os.O_WRONLY)
            os.write(fd, str(os.getpid()).encode())
            os.close(fd)
            return k
        except FileExistsError:
            k += 1


def die(action):
    with open(os.path.join(_DIR, "deaths"), "a") as f:
        f.write("%d %s\n" % (os.getpid(), action))
    if action == "exit0":
        os._exit(0)
    if action == "exit1":
        os._exit(1)
    os.kill(os.getpid(), _signum(action))
    # SIGTERM may be handled/ignored: make sure we do not continue
    import time
    time.sleep(5)
    os._exit(1)


def should_die(point):
    """Returns the action if the current process must die now at `point`, else None."""
    if not _DIR:
        return None
    call = _current_call()
    for i, flt in enumerate(_PLAN.get("faults", ())):
        if flt["point"] != point or flt["call"] != call:
            continue
        r = _rank("%d-%s" % (i, point))
        if flt.get("victims", "first") == "all" or r == 0:
            return flt["action"]
    return None


def _worker_point(name, **ctx):
    act = should_die(name)
    if act:
        die(act)


def _in_send(name, writer=None, data=None, **ctx):
    act = should_die(name)
    if act:
        # write the length header and half of the frame under the write lock, then die
        n = len(data)
        os.write(writer.fileno(), struct.pack("!i", n) + bytes(data[: max(1, n // 2)]))
        die(act)


def _record(name, **ctx):
    pass


def _parent_kill(name, executor=None, **ctx):
    """Parent-side points (executor re-use / resize at the start of a call): kill idle worker(s) of the executor from
    outside at exactly this instant and wait until they are dead (zombie or gone) before the parent continues."""
    if not _DIR or executor is None:
        return
    call = _current_call()
    for i, flt in enumerate(_PLAN.get("faults", ())):
        if flt["point"] != name or flt["call"] != call:
            continue
        if _rank("%d-%s" % (i, name)) != 0:
            continue            # once per fault
        import time
        pids = sorted(getattr(p, "pid", None) or 0 for p in list(executor._processes.values()))
        pids = [p for p in pids if p]
        victims = pids if flt.get("victims", "first") == "all" else pids[:1]
        act = flt["action"] if flt["action"].startswith("SIG") else "SIGKILL"
        for pid in victims:
            try:
                os.kill(pid, _signum(act))
            except OSError:
                pass
            with open(os.path.join(_DIR, "deaths"), "a") as f:
                f.write("%d %s@%s\n" % (pid, act, name))
        deadline = time.time() + 5
        for pid in victims:
            while time.time() < deadline:
                try:
                    with open("/proc/%d/stat" % pid) as f:
                        state = f.read().rsplit(")", 1)[1].split()[0]
                except (OSError, IndexError):
                    break
                if state in ("Z", "X"):
                    break
                time.sleep(0.002)


HANDLERS = {
    "worker.before_get": _worker_point,
    "worker.after_get": _worker_point,
    "worker.after_run": _worker_point,
    "worker.after_send": _worker_point,
    "queue.in_send": _in_send,
    "executor.reuse.before_check": _parent_kill,
    "executor.resize.enter": _parent_kill,
    "executor.resize.before_shrink_wait": _parent_kill,
    "executor.resize.after_adjust": _parent_kill,
}
