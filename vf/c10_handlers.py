# Handler file for JOBLIB_VERIF_HOOKS (executed with exec() in every process of a C10 scenario).
# Fault plan: JSON in $VF_C10_PLAN:
#   {"dir": state dir, "faults": [{"call": k, "point": name, "victims": "first"|"all", "action": ...}, ...]}
# The scenario parent writes the index of the call in progress to <dir>/current_call.
import json
import os
import signal
import struct

_PLAN = json.loads(os.environ.get("VF_C10_PLAN", "{}") or "{}")
_DIR = _PLAN.get("dir")


def _current_call():
    try:
        with open(os.path.join(_DIR, "current_call")) as f:
            return int(f.read().strip() or -1)
    except (OSError, ValueError):
        return -1


def _rank(tag):
    """Order of arrival (0, 1, ...) of this process at `tag`, across processes."""
    k = 0
    while True:
        try:
            fd = os.open(os.path.join(_DIR, "arrive-%s-%d" % (tag, k)), os.O_CREAT | os.O_EXCL | os.O_WRONLY)
            os.write(fd, str(os.getpid()).encode())
            os.close(fd)
            return k
        except FileExistsError:
            k += 1


def die(action):
    with open(os.path.join(_DIR, "deaths"), "a") as f:
        f.write("%d %s\n" % (os.getpid(), action))
    if action == "exit0":
        os._exit(0)
    if action == "exit1":
        os._exit(1)
    os.kill(os.getpid(), getattr(signal, action))
    # SIGTERM may be handled/ignored: make sure we do not continue
    import time
    time.sleep(5)
    os._exit(1)


def should_die(point):
    """Returns the action if the current process must die now at `point`, else None."""
    if not _DIR:
        return None
    call = _current_call()
    for i, flt in enumerate(_PLAN.get("faults", ())):
        if flt["point"] != point or flt["call"] != call:
            continue
        r = _rank("%d-%s" % (i, point))
        if flt.get("victims", "first") == "all" or r == 0:
            return flt["action"]
    return None


def _worker_point(name, **ctx):
    act = should_die(name)
    if act:
        die(act)


def _in_send(name, writer=None, data=None, **ctx):
    act = should_die(name)
    if act:
        # write the length header and half of the frame under the write lock, then die
        n = len(data)
        os.write(writer.fileno(), struct.pack("!i", n) + bytes(data[: max(1, n // 2)]))
        die(act)


def _record(name, **ctx):
    pass


HANDLERS = {
    "worker.before_get": _worker_point,
    "worker.after_get": _worker_point,
    "worker.after_run": _worker_point,
    "worker.after_send": _worker_point,
    "queue.in_send": _in_send,
}
