"""Real-backend conformance runs for the Parallel properties (C01, C04).

The model-checking parts of C01/C04/C09/C16 drive the real Parallel object through a *virtual* backend
whose completions the explorer owns.  This module binds that environment model back to the shipped
backends: the same oracles are evaluated on free-running executions of the threading, loky and
multiprocessing backends, over the full product of a small configuration space.  The OS picks the
schedule here (one per configuration, not enumerated) - what is exhaustive is the configuration
space; the oracles are schedule-independent invariants, so no schedule can raise a false alarm.

Every (backend, chunk of programs) runs in a fresh interpreter in its own session
(vf.checks.c15.run_in_session), programs of one chunk share the process (and the loky executor),
which also chains calls: each program starts from whatever the previous ones left behind.
"""

import itertools
import json
import os
import shutil
import sys
import threading
import time

from . import core

BACKENDS = ("threading", "loky", "multiprocessing")
PROGRAM_WALL_LIMIT = 120.0     # a healthy program takes well under a second
# blocked tasks of a failed call release themselves after GATE_WAIT seconds; the call after the failed one must be
# over long before.  Threads cannot be killed: the thread pool's terminate() joins them, so on the threading backend
# every such program costs GATE_WAIT seconds and the margins are smaller (a healthy next call takes milliseconds there).
GATE_WAIT = {"threading": 5.0, "loky": 30.0, "multiprocessing": 30.0}
NEXT_CALL_WALL_LIMIT = {"threading": 2.5, "loky": 12.0, "multiprocessing": 12.0}


def programs_c01(tier):
    out = []
    ns = (0, 1, 2, 4, 7, 11) if tier == "quick" else (0, 1, 2, 3, 4, 5, 6, 8, 13, 21)
    for nj, bs, pre, ra, n, dur in itertools.product(
            (2, 3), (1, 2, "auto"), ("all", "n_jobs", "2*n_jobs", 1, 0, "n_jobs-2"), ("list", "generator", "generator_unordered"),
            ns, ("flat", "dec")):
        out.append(dict(n_jobs=nj, batch_size=bs, pre_dispatch=pre, return_as=ra, n=n, dur=dur, fail=None, reuse=False))
    return out


def programs_c04(tier):
    out = []
    n = 5
    fails = [["task", 0], ["task", 2], ["task", n - 1], ["iter", 0], ["iter", 3], ["base", 1]]
    # (a task raising StopIteration is not in the alphabet: PEP 479 turns a StopIteration that crosses a generator frame
    #  into RuntimeError - in joblib's output generators as in `list(f(x) for x in xs)` - so there is no exception type
    #  a generator-returning call could faithfully surface)
    njs = (2, 3) if tier == "quick" else (2, 3, 4)
    for nj, bs, pre, ra, fail in itertools.product(
            njs, (1, 2, "auto"), ("all", "2*n_jobs", 1), ("list", "generator", "generator_unordered"), fails):
        out.append(dict(n_jobs=nj, batch_size=bs, pre_dispatch=pre, return_as=ra, n=n, dur="flat", fail=fail, reuse=True))
    # the sequential path (n_jobs=1) and progress reporting (verbose): a failure must surface whatever is printed
    for nj, verbose, bs, ra, fail in itertools.product((1, 2), (0, 1, 11), (1, 2), ("list", "generator"), fails):
        if nj == 2 and verbose == 0:
            continue
        out.append(dict(n_jobs=nj, batch_size=bs, pre_dispatch="2*n_jobs", return_as=ra, n=n, dur="flat", fail=fail, reuse=True, verbose=verbose))
    # inside a with block, the other tasks of the failing call still running (they do not complete before the
    # next call is over): the next call must not be starved by them
    for managed, bs, pre, ra, fail in itertools.product((True, False), (1,) if tier == "quick" else (1, 2),
                                                        ("2*n_jobs",) if tier == "quick" else ("2*n_jobs", "all"), ("list", "generator"),
                                                        (["task", 0], ["task", 1], ["iter", 2])):
        out.append(dict(n_jobs=2, batch_size=bs, pre_dispatch=pre, return_as=ra, n=n, dur="block", fail=fail, reuse=True, managed=managed))
    return out


# -- inside the session ------------------------------------------------------------------------

def _run_program(backend, cfg, d, run_id, rec_sink):
    import joblib
    from .realpar_tasks import work, IterBoom
    consumed = []

    gate = os.path.join(d, "release-%d" % run_id)

    def inputs(run, n, fail, dur):
        for i in range(n):
            if fail and fail[0] == "iter" and fail[1] == i:
                raise IterBoom(i)
            consumed.append(i)
            sleep = (n - i) * 4 if dur == "dec" else 0
            failing = bool(fail and fail[0] in ("task", "base", "stopiter") and fail[1] == i)
            yield joblib.delayed(work)(d, run, i, sleep, (fail[0] if fail[0] in ("base", "stopiter") else True) if failing else False,
                                       gate if dur == "block" and not failing else None, GATE_WAIT[backend])

    p = joblib.Parallel(n_jobs=cfg["n_jobs"], backend=backend, batch_size=cfg["batch_size"],
                        pre_dispatch=cfg["pre_dispatch"], return_as=cfg["return_as"], verbose=cfg.get("verbose", 0))
    calls = [(cfg["n"], cfg["fail"], cfg["dur"])] + ([(3, None, "flat")] if cfg["reuse"] else [])
    obs = {"cfg": cfg, "calls": []}
    rec_sink["current"] = obs
    if cfg.get("managed"):
        p.__enter__()
    for callno, (n_k, fail_k, dur_k) in enumerate(calls):
        run = run_id * 10 + callno
        rec = {"run": run, "n": n_k, "got": []}
        obs["calls"].append(rec)
        t_call = time.time()
        try:
            out = p(inputs(run, n_k, fail_k, dur_k))
            if cfg["return_as"] == "list":
                rec["got"] = [list(x) for x in out]
            else:
                for x in out:
                    rec["got"].append(list(x))
        except BaseException as e:  # noqa
            rec["exc"] = [type(e).__name__, e.args[0] if isinstance(e, (IterBoom, StopIteration)) and e.args else getattr(e, "index", None)]
        rec["consumed"] = list(consumed)
        rec["wall"] = round(time.time() - t_call, 3)
        del consumed[:]
    # release the blocked tasks of the failed call (they belong to no call any more)
    open(gate, "w").close()
    if cfg.get("managed"):
        try:
            p.__exit__(None, None, None)
        except BaseException as e:  # noqa
            obs["exit_exc"] = [type(e).__name__, str(e)[:200]]
    # execution files
    counts = {}
    for f in os.listdir(d):
        if f.startswith("x-"):
            _x, run, i, _pid, _t = f.split("-")
            if int(run) // 10 == run_id:
                counts["%s:%s" % (run, i)] = counts.get("%s:%s" % (run, i), 0) + 1
                os.unlink(os.path.join(d, f))
    obs["exec_counts"] = counts
    return obs


def session_programs(arg, out_path):
    """Runs arg['programs'] on arg['backend'] in this (main) thread; a watchdog thread writes what is known and
    leaves the process if one program exceeds the wall limit."""
    import warnings
    warnings.simplefilter("ignore")
    backend = arg["backend"]
    # progress messages of verbose programs go nowhere
    sys.stdout = sys.stderr = open(os.devnull, "w")
    d = core.scratch_dir("realpar-%d" % os.getpid())
    result = {"backend": backend, "obs": [], "pids": [os.getpid()]}
    sink = {}
    state = {"deadline": None, "index": None}

    def watchdog():
        while True:
            time.sleep(0.5)
            dl = state["deadline"]
            if dl is not None and time.time() > dl:
                result["hang"] = {"program_index": state["index"], "partial": sink.get("current")}
                with open(out_path + ".tmp", "w") as f:
                    json.dump(result, f, default=repr)
                os.replace(out_path + ".tmp", out_path)
                os._exit(3)

    threading.Thread(target=watchdog, daemon=True).start()
    for k, cfg in enumerate(arg["programs"]):
        state["index"] = k
        state["deadline"] = time.time() + PROGRAM_WALL_LIMIT
        result["obs"].append(_run_program(backend, cfg, d, arg["first_run_id"] + k, sink))
        state["deadline"] = None
    shutil.rmtree(d, ignore_errors=True)
    return result


# -- oracles --------------------------------------------------------------------------------------

def judge(obs, backend):
    """Returns [(signature, message)] for one program's observation."""
    cfg = obs["cfg"]
    bad = []
    ra = cfg["return_as"]
    where = "%s|%s" % (backend, ra)
    for callno, rec in enumerate(obs["calls"]):
        n = rec["n"]
        run = rec["run"]
        fail = cfg["fail"] if callno == 0 else None
        want = [["r", run, i] for i in range(n)]
        got = rec["got"]
        tag = "first-call" if callno == 0 else "next-call"
        counts = {int(k.split(":")[1]): v for k, v in obs["exec_counts"].items() if int(k.split(":")[0]) == run}
        twice = sorted(i for i, c in counts.items() if c > 1)
        foreign = sorted(i for i in counts if not 0 <= i < n)
        if twice:
            bad.append(("real|task-twice|%s" % where, "%s: tasks %r executed more than once (%r)" % (tag, twice, counts)))
        if foreign:
            bad.append(("real|task-foreign|%s" % where, "%s: executions of tasks %r that the input never produced" % (tag, foreign)))
        if callno > 0 and cfg.get("dur") == "block" and rec.get("wall", 0) > NEXT_CALL_WALL_LIMIT[backend]:
            bad.append(("real|next-call-starved|%s|%s" % (where, "with-block" if cfg.get("managed") else "plain"),
                        "%r: the call after the failed one took %.1f s: it waited for the still running tasks of the failed call" % (cfg, rec["wall"])))
        if fail is None:
            if "exc" in rec:
                bad.append(("real|exception:%s|%s|%s" % (rec["exc"][0], where, tag), "%s of %r raised %r" % (tag, cfg, rec["exc"])))
                continue
            if ra == "generator_unordered":
                ok = sorted(got) == want
            else:
                ok = got == want
            if not ok:
                kind = "wrong-order" if sorted(got) == want else "wrong-results"
                bad.append(("real|%s|%s|%s" % (kind, where, tag), "%s of %r returned %r instead of %r" % (tag, cfg, got, want)))
            lost = [i for i in range(n) if counts.get(i, 0) == 0]
            if lost:
                bad.append(("real|task-lost|%s" % where, "%s: tasks %r never executed" % (tag, lost)))
            if rec["consumed"] != list(range(n)):
                bad.append(("real|input-consumption|%s" % where, "%s consumed inputs %r instead of 0..%d in order" % (tag, rec["consumed"], n - 1)))
        else:
            exp = ["Boom", fail[1]] if fail[0] == "task" else ["FatalBoom", fail[1]] if fail[0] == "base" else ["StopIteration", fail[1]] if fail[0] == "stopiter" else ["IterBoom", fail[1]]
            if "exc" not in rec:
                bad.append(("real|failure-swallowed|%s|%s" % (where, fail[0]),
                            "%r: the failure %r did not surface, the call returned %r" % (cfg, fail, got)))
            elif rec["exc"] != exp:
                bad.append(("real|wrong-exception:%s|%s|%s" % (rec["exc"][0], where, fail[0]),
                            "%r: raised %r instead of %r" % (cfg, rec["exc"], exp)))
            # what was yielded before the failure is correct
            if ra == "generator":
                if got != want[:len(got)]:
                    bad.append(("real|wrong-prefix|%s" % where, "%r: yielded %r before failing, not a prefix of %r" % (cfg, got, want)))
            elif ra == "generator_unordered":
                if any(g not in want for g in got) or len({tuple(g) for g in got}) != len(got):
                    bad.append(("real|wrong-prefix|%s" % where, "%r: yielded %r before failing" % (cfg, got)))
            if fail[0] == "iter" and any(i >= fail[1] for i in rec["consumed"]):
                bad.append(("real|consumed-after-iterator-failure|%s" % where, "%r consumed %r" % (cfg, rec["consumed"])))
    return bad


# -- driver (used by the checks) ------------------------------------------------------------------

def _session_work(item):
    from .checks.c15 import run_in_session
    backend, programs, first_run_id = item
    res, timed_out, tail = run_in_session("session_programs", {"backend": backend, "programs": programs, "first_run_id": first_run_id},
                                          timeout=PROGRAM_WALL_LIMIT * 2 + 5 * len(programs), module="vf.realpar")
    bad = []
    nobs = 0
    if res is None or "error" in (res or {}):
        raise core.HarnessError("real-backend session failed (%s): %s" % (backend, (res or {}).get("error") or tail[-300:]))
    for obs in res["obs"]:
        nobs += 1
        for sig, msg in judge(obs, backend):
            bad.append((sig, msg, obs["cfg"]))
    if "hang" in res or timed_out:
        h = res.get("hang") or {}
        k = h.get("program_index", len(res["obs"]))
        cfg = programs[k] if k is not None and k < len(programs) else None
        bad.append(("real|hang|%s|%s|%s" % (backend, cfg and cfg["return_as"], "failing" if cfg and cfg["fail"] else "plain"),
                    "program %r on backend %s did not finish within %d s (after %d earlier programs in the same process); partial: %r"
                    % (cfg, backend, PROGRAM_WALL_LIMIT, k or 0, h.get("partial")), cfg))
    return {"n": nobs, "bad": bad, "backend": backend}


def run_real(ctx, programs, prop, nchunks=5):
    """Runs the programs on every backend; reports violations on ctx; returns counters."""
    items = []
    rid = 1
    for b in BACKENDS:
        # the multiprocessing backend rejects return_as != 'list' at construction (supports_return_generator is False)
        progs = [p for p in programs if b != "multiprocessing" or p["return_as"] == "list"]
        progs = [p for p in progs if p["n_jobs"] != 1 or b == "threading"]     # n_jobs=1 never reaches a backend
        slow = [p for p in progs if p.get("dur") == "block"]
        progs = [p for p in progs if p.get("dur") != "block"]
        size = max(1, (len(progs) + nchunks - 1) // nchunks)
        for i in range(0, len(progs), size):
            chunk = progs[i:i + size]
            items.append((b, chunk, rid))
            rid += len(chunk)
        # programs that wait (blocked sibling tasks): two per session so that they overlap across sessions
        for i in range(0, len(slow), 2):
            items.append((b, slow[i:i + 2], rid))
            rid += 2
    n = 0
    per_backend = {}
    items.sort(key=lambda it: -sum(1 for p in it[1] if p.get("dur") == "block"))
    for res in core.pmap(_session_work, items, pin=False):
        n += res["n"]
        per_backend[res["backend"]] = per_backend.get(res["backend"], 0) + res["n"]
        for sig, msg, cfg in res["bad"]:
            ctx.violation(sig, msg, {"part": "real", "backend": res["backend"], "program": cfg, "property": prop})
    return {"real_backend_programs": n, "real_backend_programs_per_backend": per_backend}


def replay_real(data):
    from .checks.c15 import run_in_session
    cfg = data["program"]
    res, timed_out, tail = run_in_session("session_programs", {"backend": data["backend"], "programs": [cfg], "first_run_id": 1},
                                          timeout=PROGRAM_WALL_LIMIT * 2, module="vf.realpar")
    print(json.dumps(res, indent=1, default=repr)[:3000])
    if timed_out or res is None or "hang" in res:
        return 1
    bad = []
    for obs in res["obs"]:
        bad += judge(obs, data["backend"])
    for b in bad:
        print(b)
    return 1 if bad else 0


if __name__ == "__main__":
    fn_name, arg, out_path = sys.argv[1], json.loads(sys.argv[2]), sys.argv[3]
    try:
        res = {"session_programs": session_programs}[fn_name](arg, out_path)
    except BaseException as e:  # noqa
        import traceback
        res = {"error": "%s: %s\n%s" % (type(e).__name__, e, traceback.format_exc()[-600:])}
    with open(out_path + ".tmp", "w") as f:
        json.dump(res, f, default=repr)
    os.replace(out_path + ".tmp", out_path)
