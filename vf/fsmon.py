"""E3 - file-system seam via sys.monitoring CALL events.

The callback runs synchronously, in the calling thread, *before* every intercepted C-level
file-system entry point: the posix builtins, io.open, and read/write/flush/close/truncate on
io.IOBase instances.  Filtering is by identity of the C callable, so aliases inside joblib
(`_open_item = staticmethod(open)`, `from os import replace as concurrency_safe_rename`) and
calls made by shutil / os.walk / tokenize / pickle are all caught without patching names.
Used for crash snapshots (C05) and as scheduling points (C11).
"""

import io
import os
import posix
import sys
import types

mon = sys.monitoring
TOOL = 3
_ready = False
_handler = None
_tl = __import__("threading").local()

POSIX_NAMES = ("stat", "lstat", "open", "replace", "rename", "unlink", "remove", "rmdir", "mkdir", "listdir",
               "scandir", "utime", "chmod", "access", "truncate", "link", "symlink")
POSIX = {getattr(posix, n) for n in POSIX_NAMES if hasattr(posix, n)}
IO_NAMES = {"write", "read", "readinto", "readline", "readlines", "close", "flush", "truncate", "writelines"}
MUTATING_POSIX = {"replace", "rename", "unlink", "remove", "rmdir", "mkdir", "utime", "chmod", "truncate", "link", "symlink", "open"}
MUTATING_IO = {"write", "close", "flush", "truncate", "writelines"}


def _cb(code, offset, callable_, arg0):
    h = _handler
    if h is None or getattr(_tl, "busy", False):
        return
    if code.co_filename.startswith("<frozen importlib"):
        # the import system works under real (per-module) locks: its file-system calls are not
        # scheduling / crash points of their own (they belong to the interpreter, not to joblib)
        return
    name = None
    target = None
    if callable_ in POSIX:
        name = callable_.__name__
        target = arg0
    elif callable_ is io.open:
        name = "io.open"
        target = arg0
    else:
        t = type(callable_)
        if t is types.BuiltinMethodType:
            n = callable_.__name__
            if n in IO_NAMES and isinstance(callable_.__self__, io.IOBase):
                name = "f." + n
                target = callable_.__self__
        elif t is types.MethodDescriptorType:
            n = callable_.__name__
            if n in IO_NAMES and isinstance(arg0, io.IOBase):
                name = "f." + n
                target = arg0
    if name is None:
        return
    _tl.busy = True
    try:
        h(name, target)
    finally:
        _tl.busy = False


def start(handler):
    """Install handler(name, target) for every intercepted call (process-wide until stop())."""
    global _ready, _handler
    if not _ready:
        mon.use_tool_id(TOOL, "vf-fsmon")
        mon.register_callback(TOOL, mon.events.CALL, _cb)
        _ready = True
    _handler = handler
    mon.set_events(TOOL, mon.events.CALL)


def stop():
    global _handler
    _handler = None
    if _ready:
        mon.set_events(TOOL, 0)


def is_mutating(name):
    if name.startswith("f."):
        return name[2:] in MUTATING_IO
    return name in MUTATING_POSIX or name == "io.open"


# -- directory listing order as an environment answer ----------------------------------

_real_scandir = os.scandir
_real_listdir = os.listdir


class _Scan:
    def __init__(self, it, reverse):
        try:
            self.l = sorted(it, key=lambda e: e.name, reverse=reverse)
        finally:
            it.close()
        self._it = iter(self.l)

    def __iter__(self):
        return self

    def __next__(self):
        return next(self._it)

    def __enter__(self):
        return self

    def __exit__(self, *a):
        return False

    def close(self):
        pass


def set_dir_order(order):
    """order in {'asc', 'desc', None}: os.scandir / os.listdir return entries in that name order."""
    if order is None:
        os.scandir = _real_scandir
        os.listdir = _real_listdir
        return
    rev = order == "desc"

    def scandir(path="."):
        return _Scan(_real_scandir(path), rev)

    def listdir(path="."):
        return sorted(_real_listdir(path), reverse=rev)

    os.scandir = scandir
    os.listdir = listdir
