"""Entry point: python -m vf.check <Cxx> [--tier quick|thorough] [--replay path]."""
import argparse
import importlib
import json
import os
import sys
import traceback
import warnings

from . import core


def main(argv=None):
    ap = argparse.ArgumentParser()
    ap.add_argument("prop")
    ap.add_argument("--tier", default=os.environ.get("VERIF_TIER", "quick"),
                    choices=["quick", "thorough"])
    ap.add_argument("--replay")
    ap.add_argument("--only", default=None, help="restrict to a named sub-check (debugging)")
    a = ap.parse_args(argv)
    prop = a.prop.upper()
    try:
        seed = int(os.environ.get("VERIF_SEED", "0"))
    except ValueError:
        seed = 0
    warnings.simplefilter("ignore")
    try:
        mod = importlib.import_module("vf.checks.%s" % prop.lower())
    except ImportError:
        traceback.print_exc()
        print("no check module for %s" % prop)
        return 2
    try:
        if a.replay:
            with open(a.replay) as f:
                data = json.load(f)
            return mod.replay(data)
        ctx = core.Ctx(prop, a.tier, seed, mod.LEVEL)
        ctx.only = a.only
        extra = mod.run(ctx)
        return core.finish(ctx, extra or {})
    except core.HarnessError as e:
        print("HARNESS-ERROR property=%s %s" % (prop, e))
        return 2
    except Exception:
        traceback.print_exc()
        print("HARNESS-ERROR property=%s unexpected exception in the checker" % prop)
        return 2


if __name__ == "__main__":
    sys.stdout.reconfigure(line_buffering=True)
    code = main()
    sys.stdout.flush()
    sys.stderr.flush()
    os._exit(code) if os.environ.get("VERIF_HARD_EXIT") else sys.exit(code)
