"""E4: typed, near-colliding value universe as *specs* (nested tuples).

A spec is built into a fresh Python object by ``build`` (no aliasing between
sub-objects, multi-character strings/bytes created at run time so that equal
values are distinct objects) and rendered by ``canon`` into a canonical typed
string: two specs denote the same value (same content *and* same types, dict /
set / frozenset order-free) iff their canon strings are equal.
"""

import itertools

# atoms: (label, zero-arg maker).  Labels are the canonical rendering.
_ATOMS = [
    ("None", lambda: None),
    ("bool:True", lambda: True),
    ("bool:False", lambda: False),
    ("int:0", lambda: 0),
    ("int:1", lambda: 1),
    ("int:-1", lambda: -1),
    ("int:2147483648", lambda: 2 ** 31),
    ("int:1180591620717411303424", lambda: 2 ** 70),
    ("float:0.0", lambda: 0.0),
    ("float:1.0", lambda: 1.0),
    ("float:-0.0", lambda: -0.0),
    ("float:nan", lambda: float("nan")),
    ("complex:1j", lambda: 1j),
    ("str:'a'", lambda: "a"),
    ("str:'b'", lambda: "b"),
    ("str:''", lambda: ""),
    ("str:'ab'", lambda: "".join(["a", "b"])),
    ("str:'1'", lambda: "1"),
    ("bytes:b'a'", lambda: bytes([97])),
    ("bytes:b'ab'", lambda: bytes([97, 98])),
    ("bytes:b''", lambda: b""),
    ("bytearray:b'a'", lambda: bytearray(b"a")),
]
ATOM_LABELS = [a for a, _ in _ATOMS]
_ATOM_MAKER = dict(_ATOMS)
_UNHASHABLE_ATOMS = {"bytearray:b'a'"}
# groups of ==-equal atoms (cannot coexist in one set / as keys of one dict)
_EQ_GROUPS = [
    {"int:0", "float:0.0", "float:-0.0", "bool:False"},
    {"int:1", "float:1.0", "bool:True"},
]


def A(label):
    return ("atom", label)


def is_hashable(spec):
    k = spec[0]
    if k == "atom":
        return spec[1] not in _UNHASHABLE_ATOMS
    if k in ("tuple", "frozenset"):
        return all(is_hashable(c) for c in spec[1])
    return False


def _eq_class(spec):
    """Token identifying the ==-equality class of a hashable spec (coarse: typed canon except numeric groups)."""
    if spec[0] == "atom":
        for i, g in enumerate(_EQ_GROUPS):
            if spec[1] in g:
                return "eqgroup%d" % i
        return spec[1]
    if spec[0] == "tuple":
        return "tuple(" + ",".join(_eq_class(c) for c in spec[1]) + ")"
    if spec[0] == "frozenset":
        return "fs{" + ",".join(sorted(_eq_class(c) for c in spec[1])) + "}"
    return canon(spec)


def compatible_keys(specs):
    """True if the specs are pairwise non-equal under Python ==, hashable, and contain no nan."""
    seen = set()
    for s in specs:
        if not is_hashable(s) or "float:nan" in canon(s):
            return False
        c = _eq_class(s)
        if c in seen:
            return False
        seen.add(c)
    return True


def canon(spec):
    k = spec[0]
    if k == "atom":
        return spec[1]
    if k in ("tuple", "list"):
        return "%s(%s)" % (k, ",".join(canon(c) for c in spec[1]))
    if k in ("set", "frozenset"):
        return "%s{%s}" % (k, ",".join(sorted(canon(c) for c in spec[1])))
    if k == "dict":
        return "dict{%s}" % ",".join(sorted("%s:%s" % (canon(a), canon(b)) for a, b in spec[1]))
    raise ValueError(spec)


def build(spec, perm=None, path=()):
    """Fresh object for spec.  perm: {path: permutation tuple} reorders insertion of that node."""
    k = spec[0]
    if k == "atom":
        return _ATOM_MAKER[spec[1]]()
    kids = list(spec[1])
    order = list(range(len(kids)))
    if perm and path in perm:
        order = list(perm[path])
    if k in ("tuple", "list"):
        vals = [build(c, perm, path + (i,)) for i, c in enumerate(kids)]
        return tuple(vals) if k == "tuple" else vals
    if k in ("set", "frozenset"):
        vals = [build(kids[i], perm, path + (i,)) for i in order]
        if k == "set":
            s = set()
            for v in vals:
                s.add(v)
            return s
        return frozenset(vals)
    if k == "dict":
        d = {}
        for i in order:
            kk, vv = kids[i]
            d[build(kk, perm, path + (i, 0))] = build(vv, perm, path + (i, 1))
        return d
    raise ValueError(spec)


def unordered_nodes(spec, path=()):
    """Paths of set/frozenset/dict nodes with >= 2 children."""
    k = spec[0]
    out = []
    if k == "atom":
        return out
    if k in ("set", "frozenset", "dict") and len(spec[1]) >= 2:
        out.append((path, len(spec[1])))
    for i, c in enumerate(spec[1]):
        if k == "dict":
            out += unordered_nodes(c[0], path + (i, 0))
            out += unordered_nodes(c[1], path + (i, 1))
        else:
            out += unordered_nodes(c, path + (i,))
    return out


def insertion_variants(spec, max_elems=4):
    """One perm-dict per (unordered node, non-identity permutation); nodes with > max_elems: reversal + rotation."""
    out = []
    for path, n in unordered_nodes(spec):
        if n <= max_elems:
            perms = list(itertools.permutations(range(n)))[1:]
        else:
            perms = [tuple(reversed(range(n))), tuple(list(range(1, n)) + [0])]
        for p in perms:
            out.append({path: p})
    return out


# ---------------------------------------------------------------------------
# universe construction

def level0():
    return [A(l) for l in ATOM_LABELS]


_R = ["None", "bool:True", "int:1", "float:1.0", "str:'a'", "bytes:b'a'", "str:''", "int:0"]


def level1(full=True):
    at = level0()
    R = [A(l) for l in _R]
    H = [a for a in at if is_hashable(a)]
    out = []
    for kind in ("tuple", "list"):
        out.append((kind, ()))
        out += [(kind, (x,)) for x in at]
        out += [(kind, (x, y)) for x in R for y in R]
        out += [(kind, (A("int:1"), A("str:'a'"), A("None"))), (kind, (A("str:'a'"), A("int:1"), A("None")))]
    for kind in ("set", "frozenset"):
        out.append((kind, ()))
        out += [(kind, (x,)) for x in H]
        for x, y in itertools.combinations(H, 2):
            if compatible_keys([x, y]):
                out.append((kind, (x, y)))
        out += [
            (kind, (A("str:'a'"), A("str:'b'"), A("str:'ab'"))),
            (kind, (A("str:'a'"), A("str:'b'"), A("str:'ab'"), A("str:''"))),
            (kind, (A("int:1"), A("str:'a'"), A("None"))),
            (kind, (A("int:1"), A("str:'a'"), A("bytes:b'a'"), A("None"))),
            (kind, (A("int:2147483648"), A("str:'1'"), A("int:-1"), A("float:nan"))) if False else
            (kind, (A("int:2147483648"), A("str:'1'"), A("int:-1"), A("complex:1j"))),
            (kind, (A("str:'a'"), A("str:'b'"), A("str:'ab'"), A("str:''"), A("str:'1'"))),
        ]
    out.append(("dict", ()))
    out += [("dict", ((k, v),)) for k in H if "nan" not in k[1] for v in R]
    Hk = [A(l) for l in ["None", "bool:True", "int:1", "float:1.0", "int:0", "str:'a'", "str:'b'",
                         "bytes:b'a'", "str:''", "int:2147483648"]]
    for k1, k2 in itertools.combinations(Hk, 2):
        if compatible_keys([k1, k2]):
            for v1, v2 in ((A("int:1"), A("int:1")), (A("int:1"), A("str:'a'")), (A("str:'a'"), A("int:1"))):
                out.append(("dict", ((k1, v1), (k2, v2))))
    out += [
        ("dict", ((A("str:'a'"), A("int:1")), (A("str:'b'"), A("int:0")), (A("str:'ab'"), A("None")))),
        ("dict", ((A("str:'a'"), A("int:1")), (A("int:1"), A("str:'a'")), (A("None"), A("int:0")),
                  (A("bytes:b'a'"), A("float:1.0")))),
        ("dict", ((A("str:'a'"), A("int:1")), (A("str:'b'"), A("int:1")), (A("str:'ab'"), A("int:1")),
                  (A("str:''"), A("int:1")))),
    ]
    return _dedupe(out)


def _dedupe(specs):
    seen = set()
    out = []
    for s in specs:
        c = canon(s)
        if c not in seen:
            seen.add(c)
            out.append(s)
    return out


def _reduced_l1():
    """A small pool of level-1 values used as children at level 2."""
    a, b, one, onef, tr, none = A("str:'a'"), A("str:'b'"), A("int:1"), A("float:1.0"), A("bool:True"), A("None")
    return [
        ("tuple", ()), ("tuple", (one,)), ("tuple", (onef,)), ("tuple", (tr,)), ("tuple", (a,)),
        ("tuple", (one, a)), ("tuple", (a, one)),
        ("list", ()), ("list", (one,)), ("list", (a,)), ("list", (one, a)),
        ("set", ()), ("set", (one,)), ("set", (a, b)), ("set", (a, one)),
        ("frozenset", ()), ("frozenset", (one,)), ("frozenset", (a, b)), ("frozenset", (a, one)),
        ("frozenset", (a, b, A("str:'ab'"))),
        ("dict", ()), ("dict", ((a, one),)), ("dict", ((one, a),)), ("dict", ((a, one), (b, one))),
        ("dict", ((a, one), (one, a))),
    ]


def level2():
    l1 = level1()
    red = _reduced_l1()
    a, one = A("str:'a'"), A("int:1")
    out = []
    for x in l1:
        out.append(("list", (x,)))
        out.append(("tuple", (x,)))
        out.append(("dict", ((a, x),)))
        if is_hashable(x) and "nan" not in canon(x):
            out.append(("set", (x,)))
            out.append(("frozenset", (x,)))
            out.append(("dict", ((x, one),)))
    for x in red:
        for y in red:
            out.append(("list", (x, y)))
            out.append(("tuple", (x, y)))
            out.append(("dict", ((a, x), (A("str:'b'"), y))))
            out.append(("dict", ((a, x), (one, y))))
    hred = [x for x in red if is_hashable(x)]
    for x, y in itertools.combinations(hred, 2):
        if compatible_keys([x, y]):
            out.append(("set", (x, y)))
            out.append(("frozenset", (x, y)))
            out.append(("dict", ((x, one), (y, a))))
    for x, y, z in itertools.combinations(hred, 3):
        if compatible_keys([x, y, z]):
            out.append(("frozenset", (x, y, z)))
            out.append(("dict", ((x, one), (y, one), (z, one))))
    for x, y in itertools.combinations(hred, 2):
        if compatible_keys([x, y, a, one]):
            out.append(("set", (x, y, a, one)))
            out.append(("dict", ((x, one), (y, one), (a, one), (one, a))))
    return _dedupe(out)


def level3():
    """Depth-3 values: level-2 values wrapped once more / paired (thorough tier)."""
    l2 = level2()
    a, one = A("str:'a'"), A("int:1")
    out = []
    for x in l2:
        out.append(("list", (x,)))
        out.append(("dict", ((a, x),)))
        if is_hashable(x) and "nan" not in canon(x):
            out.append(("frozenset", (x, a)))
            out.append(("dict", ((x, one), (a, one))))
    step = max(1, len(l2) // 60)
    red = l2[::step]
    for x in red:
        for y in red:
            out.append(("tuple", (x, y)))
    return _dedupe(out)


def universe(depth):
    specs = level0() + level1()
    if depth >= 2:
        specs += level2()
    if depth >= 3:
        specs += level3()
    return _dedupe(specs)


def render(x):
    """Canonical typed rendering of a real Python value (order-free for dict/set/frozenset)."""
    t = type(x)
    if x is None:
        return "None"
    if t is bool or t is int or t is float or t is complex:
        return "%s:%r" % (t.__name__, x)
    if t is str or t is bytes:
        return "%s:%r" % (t.__name__, x)
    if t is bytearray:
        return "bytearray:%r" % bytes(x)
    if t is tuple or t is list:
        return "%s(%s)" % (t.__name__, ",".join(render(e) for e in x))
    if t is set or t is frozenset:
        return "%s{%s}" % (t.__name__, ",".join(sorted(render(e) for e in x)))
    if t is dict:
        return "dict{%s}" % ",".join(sorted("%s=>%s" % (render(k), render(v)) for k, v in x.items()))
    return "%s.%s:%r" % (t.__module__, t.__name__, getattr(x, "__dict__", None))
