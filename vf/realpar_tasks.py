"""Task functions of the real-backend conformance runs (imported by reference in worker processes)."""
import os
import time


class Boom(Exception):
    """Raised by a failing task; carries the task index."""

    def __init__(self, index):
        Exception.__init__(self, index)
        self.index = index


class FatalBoom(BaseException):
    """Raised by a failing task: not an Exception subclass (like KeyboardInterrupt / SystemExit raised by user code)."""

    def __init__(self, index):
        BaseException.__init__(self, index)
        self.index = index


class IterBoom(Exception):
    """Raised by the input iterable."""


def work(d, run, i, sleep_ms, fail, gate=None, gate_wait=30):
    # one file per execution: 'each task exactly once' is counted across processes
    name = "x-%d-%d-%d-%d" % (run, i, os.getpid(), time.monotonic_ns())
    os.close(os.open(os.path.join(d, name), os.O_CREAT | os.O_WRONLY))
    if sleep_ms:
        time.sleep(sleep_ms / 1000.0)
    if gate:
        # a task that does not complete before the driver releases it (or gate_wait seconds at most)
        deadline = time.time() + gate_wait
        while not os.path.exists(gate) and time.time() < deadline:
            time.sleep(0.005)
    if fail == "base":
        raise FatalBoom(i)
    if fail == "stopiter":
        raise StopIteration(i)
    if fail:
        raise Boom(i)
    return ("r", run, i)
