"""Generates /verif/MANIFEST.json from the table below (python3 -m vf.manifest)."""
import json
import os

ROOT = os.path.dirname(os.path.dirname(os.path.abspath(__file__)))
ALL = ["C%02d" % i for i in range(1, 21)]

# property -> dict(category, technique, text, note, design_ref, engine)
PAR_NOTE = ("The virtual backend (outside the repository) is a model of the environment of Parallel: it over-approximates what the "
            "threading / multiprocessing / loky backends can do through the documented ParallelBackendBase contract (single callback "
            "thread, free completion order, late completions after an abort, inline callback at submit). Pre-emption granularity is one "
            "source line of joblib.parallel; Parallel._lock is swapped for a cooperative re-entrant lock and joblib.parallel.time for a "
            "virtual clock (attribute rebinding, no source change). Small scope: n_jobs <= 3, N <= 7 tasks, stated pre-emption / deviation bounds.")

CHECKS = {
    "C01": dict(
        category="model_checking",
        engine="E1-pysched + E2-virtual-backend",
        technique="stateless model checking of the real Parallel code: iterative pre-emption/deviation bounding over all interleavings of caller and completion-callback thread and all completion orders, under a controlled scheduler driven by sys.monitoring LINE events",
        text="For each configuration (n_jobs x batch_size incl. 'auto' x pre_dispatch forms x return_as x N x input kind) every schedule within the bounds is executed on the real Parallel / BatchCompletionCallBack code and judged against the sequential reference (result list, each task executed exactly once, termination). This gives a coverage statement - no execution with <= PB pre-emptions and <= OB out-of-order completions violates the property - which the OS-scheduled test-suite cannot. The environment model is bound back to the shipped backends by a conformance part: the same oracle on free-running executions of the threading, loky and multiprocessing backends over the full product n_jobs x batch_size x pre_dispatch (incl. amounts below 1) x return_as x N x task-duration pattern.",
        note=PAR_NOTE + " The real-backend part is exhaustive in configurations only (one OS-chosen schedule each); it is reported separately in the evidence and not counted in states/transitions.",
        design_ref="1.1, 1.2, 2/C01, 10.2",
    ),
    "C02": dict(
        category="exploration",
        engine="E4-enumerators",
        technique="bounded-exhaustive enumeration (signatures x call shapes x argument slots x near-colliding typed values x cold/warm/fresh-process passes) end-to-end through the real Memory, undecorated function as reference",
        text="Every signature with <= 3 (thorough 4) parameters as plain function, bound method, functools.partial and async def, with every accepted call shape, has every argument slot varied over 38 near-colliding typed values (1 / 1.0 / True, 'a' / b'a', list / tuple / set / frozenset / dict variants, -0.0, nan, ...) inside one cache directory, cold, warm through call_and_shelve().get() and warm in a fresh forked process; each returned value must equal the undecorated function's. All values share a directory, so every pair is checked for collisions. Cross-shape histories: all accepted call shapes of a signature with one common value in every slot on one directory (shapes that Python binds differently must not share an entry). Shared-directory groups: partials / bound methods / callable instances of different functions on one location, histories A, B, A.",
        note="Functions are generated source files whose bodies return a typed rendering of what was bound. Fresh process = fork with the in-memory function table cleared; hash-seed variation is covered by C08. Which calls Python accepts is decided by the interpreter itself (shadow function with the same parameter list), not by inspect.Signature.bind. Lambdas/closures are outside the stated domain.",
        design_ref="2/C02",
    ),
    "C06": dict(
        category="exploration",
        engine="E4-enumerators",
        technique="bounded-exhaustive enumeration of groups of call forms that the interpreter binds identically, executed through the real Memory with an execution counter and check_call_in_cache as oracle",
        text="For every signature with <= 4 (thorough 5) parameters in four function kinds and every target binding, all equivalent call forms (positional / keyword, defaults omitted / spelled out, surplus keywords in both orders) are issued on one cache directory, the second half in a fresh process for every third group: exactly one execution, check_call_in_cache true exactly when the next call does not execute, no accepted call raises; then clear() / reduce_size(items_limit=0) must force a re-execution; ignore=[p] for every parameter; dict and set arguments rebuilt in another insertion order. Parameter names: every identifier joblib itself uses as a parameter name on the cached-call path (72 names) as first parameter / keyword-only parameter / key received by **kw, passed by keyword through __call__, call, call_and_shelve and check_call_in_cache under Memory(verbose 0/1/50), including a call on a damaged entry.",
        note="Equivalence is defined by the interpreter's own binding (locals() of a shadow function with the same parameter list). functools.partial objects are not inspected by joblib (documented, pinned by the test-suite): their re-executions are listed in known_findings.json by signature.",
        design_ref="2/C06",
    ),
    "C03": dict(
        category="exploration",
        engine="E4-enumerators",
        technique="bounded-exhaustive enumeration of object universe x compress argument x protocol x target x renaming, structural-equality oracle with sharing/cycle preservation",
        text="Every object of a generated universe (boundary-sized strings/bytes around the 8 KiB block, 64 KiB frame and 1 MiB buffer sizes, user classes, shared and recursive references, the typed value universe) is dumped by the real joblib.dump under every compress argument, protocol and target kind and reloaded by path, file object, memory buffer and under every other file extension; results must be structurally equal with the same sharing pattern.",
        note="Python's own pickle decides picklability per protocol (objects it rejects are outside the domain). lz4 is not installed; numpy arrays are C19's. Large objects get a reduced product (every compress argument on one target, every target on four compress arguments).",
        design_ref="2/C03",
    ),
    "C04": dict(
        category="model_checking",
        engine="E1-pysched + E2-virtual-backend",
        technique="stateless model checking (pre-emption / deviation bounded exploration of all interleavings, completion orders and late completions) of call programs on one real Parallel object",
        text="Programs of 2-3 calls on one Parallel object over {ok, failing task at several positions, failing input iterator, never-completing task + timeout}, inside and outside a with block, are executed under every schedule within the bounds, with a pool-like environment and with a zombie environment whose late completions may be withheld and delivered at any later point (including inside the next call). Oracle: the failing call raises the exception of one of its executed tasks / of the iterator / TimeoutError, never returns; every call terminates (deadlock and hang verdicts of the scheduler); the following ok-call returns exactly its own results, each task once, and no batch of an earlier call is submitted during a later one. Conformance part on the shipped backends (threading, loky, multiprocessing): failing task at first / middle / last position or failing input iterator x batch_size x pre_dispatch x return_as, then a second call on the same object.",
        note=PAR_NOTE + " The real-backend part is exhaustive in configurations only (one OS-chosen schedule each).",
        design_ref="2/C04",
    ),
    "C09": dict(
        category="model_checking",
        engine="E1-pysched + E2-virtual-backend",
        technique="stateless model checking with safety monitors: invariants evaluated at every take/submit/finish event of every explored interleaving; exhaustive grammar enumeration for eval_expr",
        text="The input iterable is an instrumented generator whose body is a scheduling region. For inputs longer than every look-ahead boundary, all schedules within the bounds are executed and the invariants - never two actors inside the input, in-flight batches <= pre_dispatch, look-ahead <= n_jobs*batch, taken-ahead-of-completed bounded independently of N, 'all' pulls everything up front in the caller, no item taken after a registered failure / close() / drop (modulo a slice already past its abort check) - are checked on every event. eval_expr is compared with Python arithmetic over a 3-level grammar and must reject everything else.",
        note=PAR_NOTE,
        design_ref="2/C09",
    ),
    "C16": dict(
        category="model_checking",
        engine="E1-pysched + E2-virtual-backend",
        technique="stateless model checking of consumer programs on the output generator; promptness decided as reachability under a withholding environment (hang verdict = result waited for a later task)",
        text="Consumer programs (exhaust; pull one by one while the environment completes only what the requested result may depend on; close / drop / leave the with block after k results followed by a fresh call; a second call during an unfinished run, also after the with block was left with the generator still alive) on return_as='generator' and 'generator_unordered' are explored under all schedules within the bounds. Oracle: submission order (ordered) or completion-registration order with each result once (unordered); every pull terminates under the withholding environment; abandonment terminates, stops dispatch, and the next call returns exactly its own results; overlapping call raises RuntimeError and leaves the first run intact.",
        note=PAR_NOTE,
        design_ref="2/C16",
    ),
    "C07": dict(
        category="exploration",
        engine="E4-enumerators",
        technique="bounded-exhaustive enumeration of all signatures x call shapes against the interpreter's own binding (small-scope model checking of the input space)",
        text="Every parameter list with <= 5 (quick) / <= 7 (thorough) parameters over the five kinds x default/no-default, as plain function and bound method, with every call shape and ignore lists of size <= 2, is bound by the real filter_args and compared with Python's own binding. The space the property quantifies over (<= 5 parameters) is enumerated completely, so within it the verdict is exact.",
        note="Reference = locals() returned by the generated function when the running CPython executes the call (inspect.Signature.bind is only cross-checked where it accepts the call: on 3.12 it rejects a keyword named like a defaulted positional-only parameter that Python routes to **kwargs); functions are generated source files (plain def and methods); functools.partial and callables that are not functions/methods are outside filter_args' inspected domain.",
        design_ref="2/C07",
    ),
    "C08": dict(
        category="exploration",
        engine="E4-enumerators",
        technique="bounded-exhaustive enumeration of a typed value universe hashed in separate interpreters (PYTHONHASHSEED varied), all insertion orders, all-pairs discrimination",
        text="About 27 000 typed values (depth 3) are hashed by the real joblib.hash in 12+ interpreter processes with different hash seeds and both digest algorithms; every insertion order of every dict/set/frozenset node with <= 4 elements is rebuilt and hashed; determinism = identical digest tables, discrimination = injectivity over all ~3.6e8 pairs. Exhaustive over the stated universe, which is the strongest statement a digest property admits short of a proof about pickle.",
        note="Universe excludes aliased sub-objects (property domain) and ==-equal keys inside one container; 'random' seeds are picked by the interpreter. Runs without numpy (baseline environment).",
        design_ref="2/C08",
    ),
    "C13": dict(
        category="model_checking",
        engine="E4-enumerators (explicit-state BFS on the real object)",
        technique="explicit-state BFS to fixpoint on the real BinaryZlibFile/BinaryGzipFile at scaled block sizes + exhaustive bounded operation sequences at the real block size, against a bytes+position reference model",
        text="The read-side state machine (position, buffer, offset, input position, decompressor flags) is closed under a 24-operation alphabet for every payload length 0..13 at block sizes 1..16, each edge executed on the real class and compared with the reference stream; all sequences of length <= 3/4 are also run unmerged and at the real 8192-byte block size on boundary-sized payloads; the write side enumerates every chunking x level and decodes with the standard library.",
        note="State merging uses the full observable implementation state including buffer bytes and decompressor flags; zlib's internal inflate state is assumed determined by the input position. _BUFFER_SIZE is rebound as a module attribute.",
        design_ref="2/C13",
    ),
    "C14": dict(
        category="fault_enumeration",
        engine="E4-enumerators",
        technique="exhaustive enumeration of truncation points and suffixes of real dump files with deterministic termination monitors (no-progress detector on the refill loop via sys.monitoring, step budget, RLIMIT_AS)",
        text="For each (object, compressor, level, protocol) file every truncation length (files <= 4 KiB) or every length in boundary windows (large files) and every suffix from a fixed menu is loaded by the real joblib.load; the same damage is applied to output.pkl of a real Memory entry (compress x mmap_mode None / 'r' / 'c' [/ 'r+' / 'w+']) followed by two cached calls. Oracle: an ordinary exception or exactly the original object, never another object, never a hang / MemoryError; the cached call returns the correct value.",
        note="Termination is decided by a loop-variant monitor on BinaryZlibFile._fill_buffer plus a step budget of 20x the undamaged load, RLIMIT_AS and a 20 s back-stop; the pure-Python/C pickle opcode loop is trusted to consume input. Damage is applied to the byte string joblib.load sees.",
        design_ref="2/C14",
    ),
    "C18": dict(
        category="exploration",
        engine="E4-enumerators",
        technique="bounded-exhaustive enumeration of stores x limit combinations through the real Memory.reduce_size on real entry directories, brute-force minimal-LRU-prefix reference",
        text="All stores of up to 4 (thorough: 5) entries with sizes in {0,1,2,3} units and access times in three classes (ties included) are built as real cache directories and reduced with every combination of bytes / items / age limits at and around every boundary; the evicted set must be, for some tie order, the shortest least-recently-used prefix after which all limits hold. Surviving genuine results must load without recomputation and evicted ones recompute.",
        note="datetime.now inside joblib._store_backends is owned by the harness; sizes are exact output.pkl sizes on tmpfs; age equality at the deadline is not exercised.",
        design_ref="2/C18",
    ),
    "C20": dict(
        category="model_checking",
        engine="explicit-state BFS on the real tracker loop + real-process fault enumeration",
        technique="explicit-state model checking: BFS to fixpoint over the command alphabet on the real resource_tracker.main() loop (registry read from its frame, file system inspected at every transition) against a refcount reference model; exhaustive client histories with kill points against a real tracker process",
        text="(a) The reachable state space of the tracker's refcount loop (registry x existence of a file, a folder and a file inside it), with refcounts capped at 2/3, is closed under a 17-letter alphabet including unbalanced, unknown and garbled requests; every transition of the real loop and the end-of-input clean-up from every state agree with the reference model (delete exactly at count 0, never otherwise, files before folders, malformed input changes nothing and does not stop the loop). (b) Every client history of length <= 2 (thorough 3), split over two client processes that exit or are SIGKILLed, is run against a real tracker process, which must converge to the model state, exit at EOF and leave the model's post-state on disk. (c) TemporaryResourcesManager operation sequences are checked at the _send seam.",
        note="(a) rebinds resource_tracker.open/sys/signal as module attributes; state merging uses the real registry dict and file existence, which determine the loop's future. (b) uses real processes: the OS schedule is not controlled, the check polls for convergence (5 s) and tracker exit (10 s).",
        design_ref="2/C20",
    ),
    "C05": dict(
        category="fault_enumeration",
        engine="E3-fs-seam (vf/fsmon.py)",
        technique="exhaustive crash-point enumeration: a snapshot of the cache directory before every intercepted file-system call of each workload (every prefix of the mutation sequence), torn-write variants, both directory-listing orders; recovery of every distinct crash state in fresh processes",
        text="Nine workloads (cold call, warm + new call, call after a source change, callback-driven invalidation, call_and_shelve, compressed store, reduce_size, clear, second function in the same directory) run once each under the file-system seam; every distinct on-disk state a kill -9 could leave (including torn variants of files that were growing, identified by inode so that renamed files are never torn) is recovered six ways in fresh forked processes: plain calls, calls with expires_after, call_and_shelve().get(), reduce_size then calls, clear then calls, and loading every output.pkl present. Oracle: correct value of the current code, no exception, every output.pkl under its final name loads.",
        note="Crash = process death: completed system calls are visible, Python-level buffers are lost. Interception is by sys.monitoring CALL events on the C entry points and is validated at the start of every run by an strace witness (vf/fswitness.py: every mutating system call strace -f sees on the cache directory has a seam event of the same class and file name, unbuffered effects in the same order; a mismatch is a harness error); directory order is patched at os.scandir/os.listdir. Multi-write C calls are approximated by the torn variants.",
        design_ref="1.3, 2/C05",
    ),
    "C12": dict(
        category="model_checking",
        engine="explicit-state BFS over definition/call histories, replayed in forked processes",
        technique="explicit-state model checking: BFS with state merging over histories of define / call newest or older definition / swap code / restart, each replayed on the real Memory in forked processes, version-tagged return values as oracle",
        text="Histories up to depth 6 (thorough 7) over {define version 1/2/3 of a same-named function by rewriting its file, call the newest or the previous still-referenced definition with argument 0/1, swap a code object, restart the process} are explored breadth-first for module-level, nested, lambda and __main__ functions; states are merged on the digest of the cache directory and source file plus the live definitions. Every version returns values tagged with its version, so a value served from another version's computation is visible. Unchanged code must keep its cache across restarts.",
        note="Replays run in forked children (one per process life) with joblib.memory._FUNCTION_HASHES cleared at start. The stale-older-definition findings (source-text identity) are listed in known_findings.json by history shape; a wrong value for the newest definition with no stale call in the history is not listed and alarms.",
        design_ref="2/C12",
    ),
    "C17": dict(
        category="model_checking",
        engine="explicit-state enumeration on real parallel_config / Parallel objects",
        technique="explicit-state enumeration of context stacks x explicit arguments (60^3 resolutions), BFS over enter/exit(normal|exception) sequences with a differential scoping oracle, and all operation-granularity interleavings of two threads",
        text="(A) every (outer context, inner context, explicit Parallel arguments) triple over backend x n_jobs x prefer x require is constructed for real and compared with a small reference resolver (explicit > innermost > outer > default; prefer is a hint; require='sharedmem' yields a thread backend or ValueError) plus the resolver-independent sharedmem invariant; (B) per-key precedence at depth <= 4 for verbose / max_nbytes / mmap_mode / temp_folder; (C) all context stacks up to depth 2 (thorough 3) with normal and exceptional exits: probes after an exit equal the probes before the matching enter; (D) two threads running programs of <= 3 enter/exit/probe operations under all interleavings observe what they observe alone.",
        note="The reference resolver encodes one rule taken from the test-suite (a context-chosen backend replaced by the thread backend takes the context's n_jobs with it). Thread interleavings are at operation granularity (real threads stepped by semaphores).",
        design_ref="2/C17",
    ),
    "C11": dict(
        category="model_checking",
        engine="E1-pysched (fs mode) + E3-fs-seam",
        technique="stateless model checking at file-system-call granularity: pre-emption-bounded exploration of all interleavings of 2-3 actors (call / reduce_size / clear) on one real cache directory, both directory orders, two process models",
        text="Actors drawn from {cached call with equal or different arguments, reduce_size by items / bytes, clear, call with changed source} run as real threads under the baton scheduler; every C-level file-system entry point (sys.monitoring CALL events) is a scheduling point. All interleavings with <= 2 (thorough 3) pre-emptions are executed on a fresh copy of each of three initial directory states, with ascending and descending directory listings, with actors sharing the cached function object (threads) or owning private function / Memory objects (processes). Oracle: correct value, no exception in any actor, every output.pkl present at quiescence loads to a complete result.",
        note="Granularity is one file-system call; the import system's own file-system calls (made under real interpreter locks) are not scheduling points. The 'processes' model is emulated inside one interpreter (private function objects and function-table entries; the pid in temporary names is shared). Call-vs-clear() races are listed in known_findings.json.",
        design_ref="1.1, 1.3, 2/C11",
    ),
    "C10": dict(
        category="fault_enumeration",
        engine="E5-process-fault-injector (vf/c10_*.py + joblib/_verif_hooks.py)",
        technique="exhaustive enumeration of kill instants x signals x victims x call histories on real loky processes, kill instants pinned by guarded hook points inside the vendored loky code",
        text="Real Parallel(backend='loky') scenarios in isolated sessions: a worker (the first to arrive, or every one) dies by SIGKILL / SIGTERM / SIGSEGV / os._exit at one of eight instants of the task life-cycle (argument unpickling, after fetching the task, task start, mid-task, after the run, during result pickling, mid-send with half a frame written under the queue lock, after the send), while idle between calls, or during the next call's start-up (parent-side points: executor re-use check, resize entry, while surplus workers leave, after new workers were spawned; n_jobs growing / shrinking / unchanged), for histories fault-ok, fault-fault-ok, ok-fault-ok-ok, ok-idle-ok-ok, with and without a with block, list and generator outputs. Oracle: every call returns within 20 s with exactly the expected results or a BrokenProcessPool-family error, never more failed calls than faults, the second call after a fault succeeds.",
        note="Real processes: the enumerated dimensions are covered exhaustively, the OS schedule inside a scenario is not controlled; a watchdog verdict is re-run once before being reported. The mid-send hang is a known finding. Requires the guarded hook commit in /repo (JOBLIB_VERIF_HOOKS).",
        design_ref="1.5, 2/C10, 3",
    ),
    "C15": dict(
        category="exploration",
        engine="simulated machine (attribute rebinding) + gate tasks on real pools",
        technique="exhaustive enumeration of simulated machines x n_jobs values for the arithmetic, and of gate release orders x (backend, n_jobs, N) and nesting shapes on real pools with an exact running-task counter",
        text="(a) cpu_count() over ~1200 simulated machines (os.cpu_count incl. None, affinity, cgroup v1/v2 quota files, LOKY_MAX_CPU_COUNT) equals max(1, min(limits)); effective_n_jobs of every backend and of Parallel for every n_jobs in [-2c, 2c]; n_jobs=1 runs in the calling thread. (b) gate tasks that cannot finish before the controller releases them give an exact high-water mark of simultaneously running tasks, for every release order (DFS) on the threading backend and on loky / multiprocessing in isolated sessions. (c) trees of (pid, thread, active backend) observed by nested default Parallel calls up to depth 3 under each outer backend: no process beyond the outer pool, first nested level on <= n_jobs threads, deeper levels in the parent's thread.",
        note="(b) and (c) run real thread / process pools: what is exhaustive is the configuration space and the release orders; the OS schedule is not controlled, but the counter cannot raise a false alarm and an over-sized pool is observed as soon as its extra worker picks a task. (a) rebinds names inside loky.backend.context / _parallel_backends.",
        design_ref="2/C15",
    ),
    "C19": dict(
        category="exploration",
        engine="E4-enumerators under /verif/.venv (numpy from the offline wheelhouse)",
        technique="bounded-exhaustive enumeration of dtype x shape x layout x subclass x nesting/alignment x compressor x mmap mode through the real dump/load, plus worker-side observations of automatically memmapped arguments",
        text="Every existing combination of 19 dtypes (incl. structured aligned/packed/nested/big-endian, object, datetime, strings), 8 shapes (0-d, empty, n-d), 8 layouts (C, F, transposed, strided, negative stride, broadcast, memmap-backed, memmap slice at a non-zero offset) and ndarray / matrix / user subclass is dumped and loaded alone under every compressor and nested after 0..15 bytes so that every alignment padding occurs; loaded arrays must have the same dtype (up to the documented byte-order normalisation; identical with ensure_native_byte_order=False), shape, order and bytes. The uncompressed file is then loaded with every mmap_mode: np.memmap instances, equal contents, 16-byte aligned, offset inside the file, write-through for r+/w+ and not for c. Arrays passed to loky workers with max_nbytes around their size must present the same values and be memmapped exactly above the threshold.",
        note="Runs under /verif/.venv (numpy 2.5.3) with joblib from /repo; the baseline environment has no numpy. Array sharing inside containers is not required (the property does not state it). numpy.matrix coming back as ndarray with numpy >= 2 is a known finding.",
        design_ref="2/C19",
    ),
}

NOT_BUILT_REASON = "check not built yet in this revision of /verif (planned in DESIGN.md section 2; model checking applies)"


def build():
    checks = []
    for pid in ALL:
        c = CHECKS.get(pid)
        if not c:
            continue
        checks.append({
            "property_id": pid,
            "quick_cmd": "bin/check %s --tier quick" % pid,
            "thorough_cmd": "bin/check %s --tier thorough" % pid,
            "evidence_file": "/verif/evidence/%s.json" % pid,
            "replay_cmd_template": "bin/check %s --replay {path}" % pid,
            "engine": c.get("engine", ""),
            "level_claimed": {"category": c["category"], "text": c["text"],
                              "design_ref": "DESIGN.md " + c.get("design_ref", "")},
            "level_note": c["note"],
            "technique": c["technique"],
        })
    man = {
        "version": 1,
        "setup_cmd": "bin/setup",
        "hooks": {
            "guard": "JOBLIB_VERIF_HOOKS",
            "enable": "checks import joblib from /repo's working tree (PYTHONPATH=/repo, nothing is built) and export JOBLIB_VERIF_HOOKS=<handler file> only for the C10 fault-injection scenarios",
            "baseline_off_cmd": "bin/baseline /repo",
            "source_commits": HOOK_COMMITS,
            "add_only": True,
        },
        "engines": ENGINES,
        "checks": checks,
        "notes": "All checks decide by exhaustive enumeration within stated bounds on the real joblib code (see DESIGN.md). known_findings.json lists unrepaired genuine defects by signature; fix: commits in /repo are listed there as fixed entries.",
        "not_applicable": [
            {"property_id": pid, "reason": NOT_APPLICABLE.get(pid, NOT_BUILT_REASON)}
            for pid in ALL if pid not in CHECKS
        ],
    }
    return man


HOOK_COMMITS = ['265f468', '1aeafac']
NOT_APPLICABLE = {}
ENGINES = [
    {"name": "E1-pysched", "path": "vf/pysched.py", "serves_properties": ["C01", "C04", "C09", "C16", "C17", "C11"],
     "kind_free_text": "deviation-bounded stateless explorer for real Python threads (baton passing, sys.monitoring scheduling points, cooperative lock/clock, replayable choice lists)"},
    {"name": "E2-virtual-backend", "path": "vf/parharness.py", "serves_properties": ["C01", "C04", "C09", "C16"],
     "kind_free_text": "environment model of joblib.Parallel: ParallelBackendBase implementation whose completions, durations, late/inline callbacks are explorer decisions"},
    {"name": "E4-enumerators", "path": "vf/sigs.py, vf/values.py", "serves_properties": ["C02", "C03", "C06", "C07", "C08", "C13", "C14", "C18", "C19"],
     "kind_free_text": "bounded-exhaustive generators (signatures, call shapes, typed value universe, operation sequences) with boring reference models"},
]

if __name__ == "__main__":
    man = build()
    with open(os.path.join(ROOT, "MANIFEST.json"), "w") as f:
        json.dump(man, f, indent=1)
    try:
        import jsonschema
        jsonschema.validate(man, json.load(open("/root/.vp/MANIFEST.schema.json")))
        print("MANIFEST.json written and valid: %d checks, %d not_applicable" % (len(man["checks"]), len(man["not_applicable"])))
    except ImportError:
        print("MANIFEST.json written (jsonschema not importable here)")
