"""Worker-side task of the C19 memmapping scenarios."""


def content(a):
    """Comparable rendering of the array's content (object arrays hold pointers: their elements are rendered)."""
    import numpy as np
    if a.dtype == np.dtype(object):
        return repr([(type(x).__name__, repr(x)) for x in np.asarray(a).ravel().tolist()])
    return np.asarray(a).tobytes(order="C").hex()


def describe(a, i):
    import numpy as np
    return {"type": "memmap" if isinstance(a, np.memmap) else type(a).__name__, "dtype": str(a.dtype), "shape": list(a.shape),
            "bytes": content(a),
            "filename": getattr(a, "filename", None)}
