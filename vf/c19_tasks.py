"""Worker-side task of the C19 memmapping scenarios."""


def describe(a, i):
    import numpy as np
    return {"type": "memmap" if isinstance(a, np.memmap) else type(a).__name__, "dtype": str(a.dtype), "shape": list(a.shape),
            "bytes": np.asarray(a).tobytes(order="C").hex() if a.dtype != np.dtype(object) else np.asarray(a.astype(str)).tobytes().hex(),
            "filename": getattr(a, "filename", None)}
