"""Task functions of the C15 scenarios (imported by reference in worker processes)."""
import os
import threading
import time


def gate_task(d, i):
    """File-based gate: announce arrival, wait for the release file, announce completion."""
    with open(os.path.join(d, "arrive-%d" % i), "w") as f:
        f.write("%d %d" % (os.getpid(), threading.get_ident()))
    rel = os.path.join(d, "release-%d" % i)
    deadline = time.time() + 60
    while not os.path.exists(rel):
        if time.time() > deadline:
            raise RuntimeError("gate %d never released" % i)
        time.sleep(0.002)
    with open(os.path.join(d, "done-%d" % i), "w") as f:
        f.write("x")
    return i


def ident_task(i):
    return (os.getpid(), threading.get_ident())


def nest(level, depth, inner_backend=None, width=2):
    """Returns a tree: what this task sees and what its nested default Parallel calls see."""
    from joblib import Parallel, delayed
    from joblib.parallel import get_active_backend
    b, nj = get_active_backend()
    me = {"level": level, "pid": os.getpid(), "tid": threading.get_ident(), "active_backend": type(b).__name__,
          "active_n_jobs": nj, "children": []}
    if level < depth:
        kw = {"n_jobs": 2}
        if inner_backend is not None:
            kw["backend"] = inner_backend
        p = Parallel(**kw)
        me["inner_backend"] = type(p._backend).__name__
        # keep the tasks alive long enough for sibling tasks to overlap
        me["children"] = p(delayed(nest)(level + 1, depth, inner_backend, width) for _ in range(width))
        me["inner_backend_effective"] = type(p._backend).__name__
    else:
        time.sleep(0.02)
    return me
