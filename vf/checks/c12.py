"""C12 - a cached function never returns a value computed by different source code.

Explicit-state search (BFS with state merging) over histories of
  define(k)   rewrite the source file with version k of a same-named function and import it
  call(s, a)  call the cached wrapper of the newest (s=0) or the previous still-referenced (s=1) definition
  swap(s, k)  assign version k's code object to that function (thorough)
  restart     fresh process re-importing the newest file
for four function kinds (module-level, nested, lambda, defined in a __main__ script), every
history replayed on the real Memory in forked processes sharing one cache directory.
Oracle: every version returns values tagged with its own version, so call(s, a) must return
(tag of the code that function currently has, a).
"""

import collections
import hashlib
import importlib.util
import json
import os
import runpy
import shutil
import sys

from .. import core

LEVEL = "model_checking"

KINDS = ("module", "nested", "lambda", "main", "wrapped")
# wrapped = a functools.wraps decorator: the cached object is the wrapper closure (its body carries the version),
# the decorated function's own text never changes
TAGS = {1: "v1", 2: "v2", 3: "v1", 4: "v1", 5: "v5"}
# 3 = the text of 1 again, 4 = text of 1 moved down one line,
# 5 = the text of 1 with ONE statement dedented (an indentation-only edit that changes the result)


def _body_lines(tag, dedent):
    """Function body: returns (t, x) where t is `tag` unless the dedented statement overrides it."""
    inner = "t = 'v5'" if tag == "v1" else "t = %r" % tag
    return ["t = %r" % tag, "if x < -100:", "    pass", ("" if dedent else "    ") + inner, "_log(t, x)", "return (t, x)"]


def source(kind, k):
    tag = TAGS[k]
    base_tag = "v1" if k == 5 else tag
    body = _body_lines(base_tag, dedent=(k == 5))
    pre = "# moved\n" if k == 4 else ""
    log = "import os\n\ndef _log(tag, x):\n    with open(os.environ['VF_C12_LOG'], 'a') as fh:\n        fh.write('%s %r\\n' % (tag, x))\n\n"
    if kind == "wrapped":
        text = ("import functools\n\ndef deco(fn):\n    @functools.wraps(fn)\n    def wrapper(x):\n"
                + "".join("        %s\n" % l for l in body)
                + "    return wrapper\n\n@deco\ndef f(x):\n    return ('undecorated', x)\n")
    elif kind in ("module", "main"):
        text = "def f(x):\n" + "".join("    %s\n" % l for l in body)
    elif kind == "nested":
        text = "def make():\n    def f(x):\n" + "".join("        %s\n" % l for l in body) + "    return f\n\nf = make()\n"
    else:
        # a lambda cannot hold statements: the indentation-only edit is expressed on a continuation line
        if k == 5:
            text = "f = lambda x: (_log('v5', x),\n    ('v5', x))[1]\n"
        else:
            text = "f = lambda x: (_log(%r, x),\n              (%r, x))[1]\n" % (tag, tag)
    return log + pre + text


def load_def(kind, path):
    if kind == "main":
        ns = runpy.run_path(path, run_name="__main__")
        return ns["f"]
    name = "vf_c12_target"
    spec = importlib.util.spec_from_file_location(name, path)
    mod = importlib.util.module_from_spec(spec)
    sys.modules[name] = mod
    spec.loader.exec_module(mod)
    return mod.f


def run_segment(arg):
    """One process life: (kind, dir, events, newest_on_disk) -> observations."""
    kind, d, events, have_file = arg
    import joblib
    import joblib.memory as M
    import logging
    import warnings
    logging.disable(logging.CRITICAL)
    warnings.simplefilter("ignore")
    M._FUNCTION_HASHES.clear()
    path = os.path.join(d, "src", "target_%s.py" % kind)
    logp = os.path.join(d, "log.txt")
    os.environ["VF_C12_LOG"] = logp
    mem = joblib.Memory(os.path.join(d, "cache"), verbose=0)
    live = []     # [ [func, cached wrapper, current tag] ... ] newest first

    def define_from_disk():
        fn = load_def(kind, path)
        tag = _tag_of_file(path)
        live.insert(0, [fn, mem.cache(fn), tag])
        del live[2:]

    if have_file:
        define_from_disk()
    obs = []
    for ev in events:
        if ev[0] == "def":
            os.makedirs(os.path.dirname(path), exist_ok=True)
            with open(path, "w") as f:
                f.write(source(kind, ev[1]))
            define_from_disk()
            obs.append(["def"])
        elif ev[0] == "call":
            s, a = ev[1], ev[2]
            if s >= len(live):
                obs.append(["skip"])
                continue
            before = _count(logp)
            try:
                v = live[s][1](a)
                res = ["ok", list(v) if isinstance(v, tuple) else v]
            except Exception as e:  # noqa
                res = ["exc", "%s: %s" % (type(e).__name__, str(e)[:200])]
            obs.append(["call", res, _count(logp) - before, live[s][2]])
        elif ev[0] == "swap":
            s, k = ev[1], ev[2]
            if s >= len(live):
                obs.append(["skip"])
                continue
            # code object of version k taken from a real function whose source is on disk in its own file
            alt = os.path.join(d, "src", "alt_%s_v%d.py" % (kind, k))
            if not os.path.exists(alt):
                os.makedirs(os.path.dirname(alt), exist_ok=True)
                with open(alt, "w") as f:
                    f.write(source(kind, k))
            if kind == "main":
                ns = runpy.run_path(alt, run_name="__main__")
            else:
                spec = importlib.util.spec_from_file_location("vf_c12_alt%d" % k, alt)
                amod = importlib.util.module_from_spec(spec)
                spec.loader.exec_module(amod)
                ns = {"f": amod.f}
            live[s][0].__code__ = ns["f"].__code__
            live[s][2] = TAGS[k]
            obs.append(["swap"])
    summary = {"live": [[x[2], (x[0] in M._FUNCTION_HASHES) if x[0].__name__ != "<lambda>" else False] for x in live]}
    return {"obs": obs, "summary": summary}


def _tag_of_file(path):
    """Behavioural tag of the definition currently in the file (obtained by running it, log disabled)."""
    with open(path) as f:
        t = f.read()
    ns = {"__name__": "vf_c12_probe"}
    old = os.environ.get("VF_C12_LOG")
    os.environ["VF_C12_LOG"] = os.devnull
    try:
        exec(compile(t, path, "exec"), ns)
        return ns["f"](0)[0]
    finally:
        if old is not None:
            os.environ["VF_C12_LOG"] = old


def _count(logp):
    try:
        with open(logp) as f:
            return sum(1 for _ in f)
    except OSError:
        return 0


def dir_digest(d):
    h = hashlib.sha1()
    cache = os.path.join(d, "cache")
    for root, dirs, files in os.walk(cache):
        dirs.sort()
        for fn in sorted(files):
            if fn == ".gitignore" or fn == "metadata.json":
                continue
            p = os.path.join(root, fn)
            h.update(os.path.relpath(p, cache).encode())
            with open(p, "rb") as f:
                h.update(hashlib.sha1(f.read()).digest())
    src = os.path.join(d, "src")
    for root, _dirs, files in os.walk(src):
        for fn in sorted(files):
            if fn.endswith(".py") and fn.startswith("target_"):
                with open(os.path.join(root, fn), "rb") as f:
                    h.update(f.read())
    return h.hexdigest()


def replay_history(kind, d, history):
    """Replays history (list of events incl. ('restart',)) from an empty directory; returns (obs list, state key)."""
    shutil.rmtree(d, ignore_errors=True)
    os.makedirs(d)
    segments = [[]]
    for ev in history:
        if ev[0] == "restart":
            segments.append([])
        else:
            segments[-1].append(ev)
    all_obs = []
    have_file = False
    summary = None
    for seg in segments:
        res = core.run_isolated(run_segment, (kind, d, seg, have_file), timeout=120)
        if res[0] != "ok":
            raise core.HarnessError("segment failed: %r" % (res,))
        out = res[1]
        all_obs.append(out["obs"])
        summary = out["summary"]
        if any(ev[0] == "def" for ev in seg):
            have_file = True
    key = (dir_digest(d), json.dumps(summary, sort_keys=True))
    return all_obs, key


def judge(kind, history, all_obs):
    """List of (signature, message) for the LAST event only (earlier ones were judged on shorter histories)."""
    flat = []
    seg_i = 0
    it = iter(all_obs[0])
    for ev in history:
        if ev[0] == "restart":
            seg_i += 1
            it = iter(all_obs[seg_i])
            flat.append((ev, None))
        else:
            flat.append((ev, next(it)))
    ev, ob = flat[-1]
    bad = []
    if ev[0] == "call" and ob[0] == "call":
        res, executed, tag = ob[1], ob[2], ob[3]
        if res[0] == "exc":
            bad.append(("raises|%s" % kind, "call raised %s" % res[1]))
        else:
            v = res[1]
            want = [tag, ev[2]]
            if v != want:
                shape = classify(history)
                bad.append(("wrong-version|%s|%s" % (kind, shape),
                            "the function whose code is %s returned %r for argument %r (a value computed by other source code)" % (tag, v, ev[2])))
        # unchanged code keeps its cache across sessions
        texts = {TAGS[e[1]] for e in history if e[0] == "def"} | {TAGS[e[2]] for e in history if e[0] == "swap"}
        earlier = [(e, o) for (e, o) in flat[:-1] if e[0] == "call" and o and o[0] == "call" and o[1][0] == "ok" and e[2] == ev[2]]
        if len(texts) == 1 and earlier and executed != 0 and not any(e[0] == "swap" for e in history) \
                and len({e[1] for e in history if e[0] == "def"}) == 1:
            bad.append(("recomputed-unchanged|%s" % kind, "the same definition was called again with the same argument %r (source never changed) and the body ran again" % (ev[2],)))
    return bad


def classify(history):
    """Shape of a wrong-version history, fine enough to tell the known root causes apart:
    target            newest | older (a still-referenced previous definition)
    known-to-memory   (older) that definition had been called while it was the newest one, in this process
    after-stale-call  (newest) an older, still-referenced definition was called after a newer one existed
    after-swap / after-restart   a code swap / process restart occurred earlier in the history
    """
    last = history[-1]
    target = "newest" if last[1] == 0 else "older"
    feats = [target]
    # index of the define that created the called definition
    defs = [i for i, e in enumerate(history) if e[0] == "def"]
    restarts = [i for i, e in enumerate(history) if e[0] == "restart"]
    last_restart = restarts[-1] if restarts else -1
    if target == "older":
        if len(defs) >= 2:
            born, superseded = defs[-2], defs[-1]
            if born > last_restart and any(e[0] == "call" and e[1] == 0 for e in history[born:superseded]):
                feats.append("known-to-memory")
    else:
        stale = False
        ndefs = 0
        for e in history[:-1]:
            if e[0] == "def":
                ndefs += 1
            elif e[0] == "restart":
                ndefs = min(ndefs, 1)
            elif e[0] == "call" and e[1] == 1 and ndefs >= 2:
                stale = True
        if stale:
            feats.append("after-stale-call")
    if any(e[0] == "swap" for e in history):
        feats.append("after-swap")
    if restarts:
        feats.append("after-restart")
    return "+".join(feats)


def events_for(nlive, mode):
    """mode: False/'base' (no swaps), True/'full' (everything), 'swap' (reduced alphabet with swaps)."""
    if mode == "swap":
        evs = [("def", 1), ("def", 2)]
        for s in range(min(nlive, 2)):
            evs.append(("call", s, 0))
        for s in range(min(nlive, 1)):
            for k in (1, 2):
                evs.append(("swap", s, k))
        evs.append(("restart",))
        return evs
    thorough = bool(mode) and mode != "base"
    evs = [("def", 1), ("def", 2), ("def", 3), ("def", 5)]
    if thorough:
        evs.append(("def", 4))
    for s in range(min(nlive, 2)):
        for a in (0, 1):
            evs.append(("call", s, a))
    if thorough:
        for s in range(min(nlive, 2)):
            for k in (1, 2):
                evs.append(("swap", s, k))
    evs.append(("restart",))
    return evs


def nlive_after(history):
    n = 0
    for ev in history:
        if ev[0] == "def":
            n = min(n + 1, 2)
        elif ev[0] == "restart":
            n = 1 if n else 0
    return n


def _work(item):
    kind, depth, thorough, shard, nshards, max_states = item
    import joblib  # noqa - imported here so that the forked segment processes do not pay for it
    import joblib.memory  # noqa
    d = core.scratch_dir("c12-%s-%d" % (kind, os.getpid()))
    seen = set()
    frontier = collections.deque()
    # shard on the first two events
    firsts = []
    for e1 in events_for(0, thorough):
        if e1[0] != "def":
            continue
        for e2 in events_for(1, thorough):
            firsts.append([e1, e2])
    mine = firsts[shard::nshards]
    viols = {}
    states = trans = 0
    maxd = 0
    capped = False
    for h in mine:
        frontier.append(h)
    while frontier:
        h = frontier.popleft()
        try:
            obs, key = replay_history(kind, d, h)
        except core.HarnessError as e:
            raise
        trans += 1
        for sig, msg in judge(kind, h, obs):
            if sig not in viols:
                viols[sig] = [sig, "%s; history: %s" % (msg, fmt(h)), {"kind": kind, "history": [list(e) for e in h]}]
            elif len(h) < len(viols[sig][2]["history"]):
                viols[sig] = [sig, "%s; history: %s" % (msg, fmt(h)), {"kind": kind, "history": [list(e) for e in h]}]
        if key in seen:
            continue
        seen.add(key)
        states += 1
        maxd = max(maxd, len(h))
        if len(h) >= depth:
            continue
        if states >= max_states:
            capped = True
            continue
        for ev in events_for(nlive_after(h), thorough):
            if ev[0] == "restart" and h and h[-1][0] == "restart":
                continue
            frontier.append(h + [ev])
    shutil.rmtree(d, ignore_errors=True)
    return {"states": states, "transitions": trans, "depth": maxd, "viol": list(viols.values()), "capped": capped,
            "sample": {"kind": kind, "shard": shard, "states": states, "transitions": trans, "max_depth": maxd}}


def fmt(h):
    out = []
    for e in h:
        if e[0] == "def":
            out.append("define v%d%s" % (e[1], " (text of v1)" if e[1] in (3, 4) else " (v1 with one statement dedented)" if e[1] == 5 else ""))
        elif e[0] == "call":
            out.append("call %s(%d)" % ("newest" if e[1] == 0 else "older", e[2]))
        elif e[0] == "swap":
            out.append("swap code of %s to v%d" % ("newest" if e[1] == 0 else "older", e[2]))
        else:
            out.append("restart")
    return "; ".join(out)



# -- functions without retrievable source -------------------------------------------------------
# (built with exec/compile from a string: get_func_code falls back on an identifier derived from the code object).
# Versions differ ONLY in a constant (A/B) or only in a global name (C/D): identical instruction streams.

NOSRC_VERSIONS = {
    "A": ("def f(x):\n    return ('vA', x)\n", "vA"),
    "B": ("def f(x):\n    return ('vB', x)\n", "vB"),
    "C": ("def f(x):\n    return (TAG_C, x)\n", "vC"),
    "D": ("def f(x):\n    return (TAG_D, x)\n", "vD"),
}
NOSRC_EVENTS = [("def", v) for v in "ABCD"] + [("call", 0), ("call", 1), ("restart",)]


def nosrc_histories(depth):
    out = []
    for n in range(2, depth + 1):
        for rest in __import__("itertools").product(NOSRC_EVENTS, repeat=n - 1):
            for first in "ABCD":
                h = (("def", first),) + rest
                if h[-1][0] != "call":
                    continue        # only histories ending in a call observe anything new
                out.append(h)
    return out


def _nosrc_work(chunk):
    import joblib
    import joblib.memory as M
    import logging
    import warnings
    logging.disable(logging.CRITICAL)
    warnings.simplefilter("ignore")
    root = core.scratch_dir("c12n-%d" % os.getpid())
    n = 0
    viols = {}
    for h in chunk:
        loc = os.path.join(root, "c")
        shutil.rmtree(loc, ignore_errors=True)
        M._FUNCTION_HASHES.clear()
        mem = joblib.Memory(loc, verbose=0)
        cur = None
        cf = None
        seen_versions = []
        for i, ev in enumerate(h):
            if ev[0] == "def" or ev[0] == "restart":
                if ev[0] == "restart":
                    M._FUNCTION_HASHES.clear()
                    mem = joblib.Memory(loc, verbose=0)
                else:
                    cur = ev[1]
                    seen_versions.append(cur)
                ns = {"__name__": "vf_c12_nosrc", "TAG_C": "vC", "TAG_D": "vD"}
                exec(compile(NOSRC_VERSIONS[cur][0], "<string>", "exec"), ns)
                cf = mem.cache(ns["f"])
                continue
            n += 1
            want = (NOSRC_VERSIONS[cur][1], ev[1])
            try:
                got = cf(ev[1])
            except Exception as e:  # noqa
                got = ("EXC", type(e).__name__, str(e)[:120])
            if got != want:
                pair = "".join(sorted({cur, [v for v in "ABCD" if NOSRC_VERSIONS[v][1] == got[0]][0]})) if isinstance(got, tuple) and got[:1] != ("EXC",) and got[0] in ("vA", "vB", "vC", "vD") else "?"
                sig = "wrong-version|no-source|%s%s" % ("const-only-edit" if pair == "AB" else "name-only-edit" if pair == "CD" else "other-edit" if pair != "?" else "raises",
                                                        "+after-restart" if ("restart",) in h[:i] else "")
                if sig not in viols:
                    viols[sig] = [sig, "function built from a string (no retrievable source), history %s: call returned %r instead of %r" % (
                        " ; ".join("%s %s" % (e[0], e[1]) if len(e) > 1 else e[0] for e in h[:i + 1]), got, want),
                        {"part": "nosource", "history": [list(e) for e in h[:i + 1]]}]
                break
    shutil.rmtree(root, ignore_errors=True)
    return {"n": n, "viol": list(viols.values()), "histories": len(chunk)}


def run(ctx):
    quick = ctx.tier == "quick"
    depth = 5 if quick else 7
    nsh = 4 if quick else 8
    items = []
    for kind in KINDS:
        for sh in range(nsh):
            items.append((kind, depth - 1 if (quick and kind == "wrapped") else depth, not quick, sh, nsh, 4000 if quick else 40000))
        if quick and kind != "wrapped":
            # code-object swaps (and the moved definition v4) at a smaller depth
            for sh in range(nsh):
                items.append((kind, depth + 1, "swap", sh, nsh, 4000))
    states = trans = 0
    maxd = 0
    k = 0
    for res in core.pmap(_work, items):
        k += 1
        states += res["states"]
        trans += res["transitions"]
        maxd = max(maxd, res["depth"])
        if res["capped"]:
            ctx.cap("state cap per shard reached (search depth-bounded below it)")
        for v in res["viol"]:
            ctx.violation(*v)
        if k % 5 == 1:
            ctx.sample(res["sample"])
    nh = nosrc_histories(5 if quick else 6)
    ncalls = 0
    for res in core.pmap(_nosrc_work, [nh[i::32] for i in range(32)]):
        ncalls += res["n"]
        for v in res["viol"]:
            ctx.violation(*v)
    ctx.sample({"no_source_part": "functions built with exec() from a string (no retrievable source), versions differing only in a constant (A/B) "
                                  "or only in a global name (C/D); all histories of define A-D / call 0,1 / restart up to depth %d ending in a call" % (5 if quick else 6),
                "histories": len(nh), "calls_judged": ncalls})
    ctx.rule = ("BFS over histories of {define v1/v2/v3(=text of v1)%s, call newest/older definition with argument 0/1, %srestart} "
                "up to depth %d for function kinds %s; at most the two most recent definitions stay referenced; states merged on "
                "(digest of cache directory contents and source file, live definitions' code tags, membership in the in-memory "
                "function table); every history replayed from scratch in forked processes (one per process life)"
                % ("/v4(=moved)" if not quick else "", "swap code object, " if not quick else "", depth, list(KINDS)))
    ctx.exhaustive = True
    ctx.assumptions += ["version identity is the source text; every version returns values tagged with its version",
                        "restart = forked child with joblib.memory._FUNCTION_HASHES cleared, re-importing the file on disk"]
    return {"states": states, "transitions": trans, "traces_validated_against_impl": trans, "evaluations": trans,
            "distinct_nontrivial": states, "max_depth": maxd, "no_source_histories": len(nh), "no_source_calls": ncalls}


def replay(data):
    if data.get("part") == "nosource":
        res = _nosrc_work([tuple(tuple(e) for e in data["history"])])
        for v in res["viol"]:
            print(v[0], v[1])
        if res["viol"]:
            print("VIOLATION property=C12 replay=<this file>")
            return 1
        return 0
    d = core.scratch_dir("c12r")
    h = [tuple(e) for e in data["history"]]
    bad = []
    for i in range(1, len(h) + 1):
        obs, _ = replay_history(data["kind"], d, h[:i])
        b = judge(data["kind"], h[:i], obs)
        if b:
            print("after", fmt(h[:i]), "->", b)
        bad += b
    if bad:
        print("VIOLATION property=C12 replay=<this file>")
        return 1
    return 0
