"""C17 - parallel_config settings are scoped, thread-local and correctly prioritised.

Explicit-state enumeration on the real objects:
 (A) resolution: every (outer context, inner context, explicit Parallel arguments) over the
     interacting group backend x n_jobs x prefer x require (60^3 constructions), both
     parallel_config and parallel_backend, against a small reference resolver and the
     resolver-independent hard-constraint invariant (require='sharedmem' => thread-based
     backend or ValueError);
 (B) per-key precedence for verbose / max_nbytes / mmap_mode / temp_folder at nesting depth <= 4;
 (C) scoping: BFS over context stacks (enter, exit normally, exit by exception), differential
     oracle: probes after an exit equal the probes before the matching enter;
 (D) two threads: all interleavings at operation granularity of two programs of <= 3 operations.
"""

import itertools
import threading

from .. import core

LEVEL = "model_checking"

BACKENDS = (None, "threading", "loky", "multiprocessing", "sequential")
CLS = {"threading": "ThreadingBackend", "loky": "LokyBackend", "multiprocessing": "MultiprocessingBackend",
       "sequential": "SequentialBackend"}
SHAREDMEM = {"threading", "sequential"}
USES_THREADS = {"threading", "sequential"}
UNSET = "<unset>"


def group_settings(with_none=False):
    """with_none: also the explicit value None for prefer / require ("no hint", which is not the same as leaving the
    parameter out: an explicit None still wins over the enclosing context)."""
    out = []
    for b, nj, pr, rq in itertools.product(BACKENDS, (UNSET, 2), (UNSET, "threads", "processes") + ((None,) if with_none else ()),
                                           (UNSET, "sharedmem") + ((None,) if with_none else ())):
        out.append({"backend": UNSET if b is None else b, "n_jobs": nj, "prefer": pr, "require": rq})
    return out


def first_set(key, explicit, stack, default):
    """explicit > innermost context > ... > outermost > default"""
    if explicit.get(key, UNSET) != UNSET:
        return explicit[key]
    for ctx in reversed(stack):
        if ctx.get(key, UNSET) != UNSET:
            return ctx[key]
    return default


def reference(stack, explicit):
    """(backend class name | 'ValueError', n_jobs)."""
    prefer = first_set("prefer", explicit, stack, None)
    require = first_set("require", explicit, stack, None)
    if prefer == "processes" and require == "sharedmem":
        return ("ValueError", None)
    ctx_backend = first_set("backend", {}, stack, None)
    ctx_explicit = ctx_backend is not None
    base = ctx_backend or "loky"
    force_threads = (require == "sharedmem" and base not in SHAREDMEM) or (
        not ctx_explicit and prefer == "threads" and base not in USES_THREADS)
    active = "threading" if force_threads else base
    ctx_n_jobs = first_set("n_jobs", {}, stack, UNSET)
    if force_threads and ctx_explicit:
        # the context's backend is replaced by the default thread backend: its n_jobs goes with it
        # (pinned by test_backend_hinting_and_constraints)
        ctx_n_jobs = 1
    eb = explicit.get("backend", UNSET)
    backend = eb if eb != UNSET else active
    if eb != UNSET and require == "sharedmem" and eb not in SHAREDMEM:
        return ("ValueError", None)
    en = explicit.get("n_jobs", UNSET)
    n_jobs = en if en != UNSET else (ctx_n_jobs if ctx_n_jobs != UNSET else 1)
    return (CLS[backend], n_jobs)


def kw(d):
    return {k: v for k, v in d.items() if v != UNSET}


def construct(explicit):
    from joblib import Parallel
    try:
        p = Parallel(**kw(explicit))
    except ValueError:
        return ("ValueError", None), None
    return (type(p._backend).__name__, p.n_jobs), p


def enter(ctxkind, d):
    from joblib import parallel_backend, parallel_config
    a = kw(d)
    if ctxkind == "parallel_backend":
        b = a.pop("backend")
        a.pop("prefer", None)
        a.pop("require", None)
        return parallel_backend(b, **a)
    return parallel_config(**a)


def classify_resolution(stack, explicit, got, want):
    feats = []
    if want[0] == "ValueError" and got[0] != "ValueError":
        rq_src = "explicit" if explicit.get("require", UNSET) != UNSET else "context"
        pr = first_set("prefer", explicit, stack, None)
        if pr == "processes":
            feats.append("inconsistent-hint-accepted")
        else:
            feats.append("sharedmem-from-%s-ignored-for-explicit-backend" % rq_src)
    elif got[0] == "ValueError":
        feats.append("unexpected-ValueError")
    elif got[0] != want[0]:
        feats.append("backend-class")
    elif got[1] != want[1]:
        src = "explicit" if explicit.get("n_jobs", UNSET) != UNSET else "context"
        ctxb = first_set("backend", {}, stack, None)
        feats.append("n_jobs-from-%s-lost(%s)" % (src, "context-backend-replaced" if ctxb else "no-context-backend"))
    return "+".join(feats)


def work_resolution(item):
    ctxkind, outers = item
    from joblib.parallel import _backend, default_parallel_config
    settings = group_settings()
    explicit_settings = group_settings(with_none=True)
    n = 0
    viols = {}
    combos = set()
    for outer in outers:
        for inner in settings:
            stack_defs = [c for c in (outer, inner) if any(v != UNSET for v in c.values())]
            if ctxkind == "parallel_backend":
                if any(c["backend"] == UNSET for c in stack_defs):
                    continue
                stack_defs = [dict(c, prefer=UNSET, require=UNSET, n_jobs=c["n_jobs"] if c["n_jobs"] != UNSET else -1) for c in stack_defs]
            cms = []
            try:
                for c in stack_defs:
                    cm = enter(ctxkind, c)
                    cm.__enter__()
                    cms.append(cm)
                for explicit in explicit_settings:
                    n += 1
                    got, p = construct(explicit)
                    want = reference(stack_defs, explicit)
                    combos.add(got)
                    bad = None
                    if got != want:
                        bad = classify_resolution(stack_defs, explicit, got, want)
                    # hard-constraint invariant, independent of the resolver
                    rq = first_set("require", explicit, stack_defs, None)
                    if p is not None and rq == "sharedmem" and not getattr(p._backend, "supports_sharedmem", False):
                        bad = (bad + "+" if bad else "") + "INVARIANT:sharedmem-required-but-%s" % type(p._backend).__name__
                    if bad:
                        sig = "resolution|%s|%s" % (ctxkind, bad)
                        if sig not in viols:
                            viols[sig] = [sig, "contexts (outer..inner) %r with Parallel(%r): got %r, reference %r" % (
                                [kw(c) for c in stack_defs], kw(explicit), got, want),
                                {"part": "A", "ctxkind": ctxkind, "stack": stack_defs, "explicit": explicit}]
            finally:
                for cm in reversed(cms):
                    cm.__exit__(None, None, None)
            if getattr(_backend, "config", default_parallel_config) is not default_parallel_config and \
                    getattr(_backend, "config") != default_parallel_config:
                viols["scoping|config-not-restored"] = ["scoping|config-not-restored", "after leaving %r the thread's config is not the default one" % (stack_defs,),
                                                       {"part": "A", "ctxkind": ctxkind, "stack": stack_defs, "explicit": {}}]
    return {"n": n, "viol": list(viols.values()), "outcomes": len(combos)}


# None is a legal explicit value of the last three (and the default of temp_folder): explicit None wins over a context
SIMPLE = {"verbose": (UNSET, 3, 60), "max_nbytes": (UNSET, 10, "2K", None), "mmap_mode": (UNSET, "c", "r+", None),
          "temp_folder": (UNSET, "/tmp/vf-a", "/tmp/vf-b", None)}
DEFAULTS = {"verbose": 0, "max_nbytes": "1M", "mmap_mode": "r", "temp_folder": None}


def observed_simple(p, key):
    if key == "verbose":
        return p.verbose
    v = p._backend_kwargs[key]
    return v


def expected_simple(key, v):
    if key == "max_nbytes" and isinstance(v, str):
        from joblib.disk import memstr_to_bytes
        return memstr_to_bytes(v)
    return v


def part_b(ctx):
    from joblib import Parallel, parallel_config
    n = 0
    for key, vals in SIMPLE.items():
        for depth in range(0, 5):
            for stack_vals in itertools.product(vals, repeat=depth):
                cms = []
                for v in stack_vals:
                    cm = parallel_config(**({key: v} if v != UNSET else {}))
                    cm.__enter__()
                    cms.append(cm)
                try:
                    for ev in vals:
                        n += 1
                        p = Parallel(**({key: ev} if ev != UNSET else {}))
                        want = expected_simple(key, first_set(key, {key: ev}, [{key: v} for v in stack_vals], DEFAULTS[key]))
                        got = observed_simple(p, key)
                        if got != want:
                            ctx.violation("precedence|%s" % key, "contexts setting %s=%r (outer..inner), Parallel(%s=%r): resolved %r, expected %r" % (
                                key, stack_vals, key, ev, got, want), {"part": "B", "key": key, "stack": list(stack_vals), "explicit": ev})
                finally:
                    for cm in reversed(cms):
                        cm.__exit__(None, None, None)
    # all four keys together, mixed levels
    for pattern in itertools.product((0, 1, 2), repeat=4):
        n += 1
        keys = list(SIMPLE)
        cms = []
        stack = []
        for level in (1, 2):
            d = {k: SIMPLE[k][level] for k, lv in zip(keys, pattern) if lv >= level}
            cm = parallel_config(**d)
            cm.__enter__()
            cms.append(cm)
            stack.append(d)
        try:
            p = Parallel()
            for k in keys:
                want = expected_simple(k, first_set(k, {}, stack, DEFAULTS[k]))
                if observed_simple(p, k) != want:
                    ctx.violation("precedence|%s|mixed" % k, "stack %r: %s resolved %r expected %r" % (stack, k, observed_simple(p, k), want),
                                  {"part": "B", "key": k, "stack": stack, "explicit": None})
        finally:
            for cm in reversed(cms):
                cm.__exit__(None, None, None)
    return n


CTX_ALPHABET = [
    {"backend": "threading"}, {"backend": "loky", "n_jobs": 2}, {"n_jobs": 3}, {"prefer": "threads"},
    {"require": "sharedmem"}, {"verbose": 7}, {"backend": "multiprocessing", "verbose": 2}, {"max_nbytes": 5, "mmap_mode": "c"},
    # the old API, mixed with the new one in the same stack
    {"_kind": "parallel_backend", "backend": "threading", "n_jobs": 2}, {"_kind": "parallel_backend", "backend": "loky"},
    {"temp_folder": "/tmp/vf-x", "verbose": 3, "require": "sharedmem"},
]


def _enter_any(d):
    d = dict(d)
    kind = d.pop("_kind", "parallel_config")
    return enter(kind, d)
PROBES = [{}, {"n_jobs": 4}, {"backend": "threading"}, {"prefer": "threads"}, {"require": "sharedmem"}, {"verbose": 9}]


def probe_all():
    from joblib import Parallel
    from joblib.parallel import get_active_backend
    out = []
    for e in PROBES:
        try:
            p = Parallel(**e)
            out.append((type(p._backend).__name__, p.n_jobs, p.verbose, p._backend_kwargs["max_nbytes"], p._backend_kwargs["mmap_mode"],
                        p._backend_kwargs["prefer"], p._backend_kwargs["require"], p._backend_kwargs["temp_folder"]))
        except ValueError:
            out.append("ValueError")
    b, nj = get_active_backend()
    out.append(("active", type(b).__name__, nj))
    return tuple(out)


class _Boom(Exception):
    pass


def part_c(ctx, depth):
    """BFS over stacks; every exit kind; differential oracle against the probes recorded for the shorter stack."""
    from joblib import parallel_config
    n = 0
    states = {}
    trans = 0

    def run_stack(stack, exit_kinds):
        # enters the contexts of `stack`, returns probes at every level on the way in and on the way out
        def rec(i):
            nonlocal trans
            before = probe_all()
            if i == len(stack):
                return
            try:
                with _enter_any(stack[i]):
                    rec(i + 1)
                    if exit_kinds[i] == "exc":
                        raise _Boom()
            except _Boom:
                pass
            trans += 1
            after = probe_all()
            if after != before:
                diff = [(PROBES[j] if j < len(PROBES) else "active", b, a) for j, (b, a) in enumerate(zip(before, after)) if a != b]
                ctx.violation("scoping|%s-exit" % exit_kinds[i], "after leaving (%s) the context %r at depth %d the probes differ from before entering it: %r" % (
                    exit_kinds[i], stack[i], i, diff[:2]), {"part": "C", "stack": stack, "exits": list(exit_kinds)})
            key = repr(stack[:i])
            if key in states and states[key] != before:
                ctx.violation("scoping|stack-dependent-on-history", "probes for the stack %r differ between two ways of reaching it" % (stack[:i],),
                              {"part": "C", "stack": stack, "exits": list(exit_kinds)})
            states.setdefault(key, before)
        rec(0)

    for d in range(1, depth + 1):
        for stack in itertools.product(CTX_ALPHABET, repeat=d):
            for exits in itertools.product(("normal", "exc"), repeat=d):
                n += 1
                run_stack(list(stack), exits)
    return n, len(states), trans


def part_d(ctx):
    """Two threads, programs of <= 3 operations, all interleavings at operation granularity."""
    from joblib import parallel_config
    ctxs = {"A": {"backend": "threading", "n_jobs": 2}, "B": {"n_jobs": 5, "verbose": 4}}
    ops_menu = [("enter", "A"), ("enter", "B"), ("exit",), ("probe",)]
    programs = []
    for L in (1, 2, 3):
        for prog in itertools.product(ops_menu, repeat=L):
            depth = 0
            ok = True
            for op in prog:
                if op[0] == "enter":
                    depth += 1
                elif op[0] == "exit":
                    depth -= 1
                    if depth < 0:
                        ok = False
            if ok and any(o[0] == "probe" for o in prog):
                programs.append(prog)
    n = 0

    def solo(prog):
        res = []
        stack = []
        for op in prog:
            if op[0] == "enter":
                cm = parallel_config(**ctxs[op[1]])
                cm.__enter__()
                stack.append(cm)
            elif op[0] == "exit":
                stack.pop().__exit__(None, None, None)
            else:
                res.append(probe_all())
        while stack:
            stack.pop().__exit__(None, None, None)
        return res

    solo_results = {}

    def run_thread_solo(prog):
        box = []
        t = threading.Thread(target=lambda: box.append(solo(prog)))
        t.start()
        t.join()
        return box[0]

    for prog in programs:
        solo_results[prog] = run_thread_solo(prog)
    pairs = [(a, b) for a in programs[::3] for b in programs[1::4]]
    for pa, pb in pairs:
        orders = set(itertools.permutations([0] * len(pa) + [1] * len(pb)))
        for order in orders:
            n += 1
            turn = threading.Semaphore(0)
            go = [threading.Semaphore(0), threading.Semaphore(0)]
            results = [[], []]

            def body(me, prog):
                stack = []
                for op in prog:
                    go[me].acquire()
                    if op[0] == "enter":
                        cm = parallel_config(**ctxs[op[1]])
                        cm.__enter__()
                        stack.append(cm)
                    elif op[0] == "exit":
                        stack.pop().__exit__(None, None, None)
                    else:
                        results[me].append(probe_all())
                    turn.release()
                go[me].acquire()
                while stack:
                    stack.pop().__exit__(None, None, None)
                turn.release()

            ts = [threading.Thread(target=body, args=(0, pa)), threading.Thread(target=body, args=(1, pb))]
            for t in ts:
                t.start()
            for who in order:
                go[who].release()
                turn.acquire()
            for who in (0, 1):
                go[who].release()
                turn.acquire()
            for t in ts:
                t.join()
            for me, prog in ((0, pa), (1, pb)):
                if results[me] != solo_results[prog]:
                    ctx.violation("thread-locality", "thread running %r observed %r under interleaving %r with %r, but %r alone" % (
                        prog, results[me], order, (pb if me == 0 else pa), solo_results[prog]),
                        {"part": "D", "programs": [list(map(list, pa)), list(map(list, pb))], "order": list(order)})
    # the main thread must be unaffected too
    main_after = probe_all()
    return n, main_after


def run(ctx):
    quick = ctx.tier == "quick"
    settings = group_settings()
    items = []
    for ctxkind in ("parallel_config", "parallel_backend"):
        for i in range(0, len(settings), 2):
            items.append((ctxkind, settings[i:i + 2]))
    n = 0
    outcomes = 0
    for res in core.pmap(work_resolution, items):
        n += res["n"]
        outcomes = max(outcomes, res["outcomes"])
        for v in res["viol"]:
            ctx.violation(*v)
    main_before = probe_all()
    nb = part_b(ctx)
    nc, states, trans = part_c(ctx, 3)
    nd, main_after = part_d(ctx)
    if main_after != main_before:
        ctx.violation("thread-locality|main-thread-affected", "probes in the main thread changed after other threads used contexts", {"part": "D"})
    ctx.rule = ("(A) all (outer, inner, explicit) triples over backend in {unset, threading, loky, multiprocessing, sequential} x n_jobs in "
                "{unset, 2} x prefer in {unset, threads, processes} x require in {unset, sharedmem} with parallel_config, and all "
                "backend-setting pairs with parallel_backend: %d constructions vs the reference resolver and the sharedmem invariant; "
                "(B) %d per-key precedence cases (depth <= 4); (C) %d context stacks x exit kinds (depth <= %d, %d distinct stacks, %d exits "
                "checked differentially); (D) %d two-thread interleavings at operation granularity" % (n, nb, nc, 3, states, trans, nd))
    ctx.exhaustive = True
    ctx.sample({"part": "A", "stack": [{"backend": "loky", "n_jobs": 2}, {"require": "sharedmem"}], "explicit": {"backend": "multiprocessing"}})
    ctx.sample({"part": "C", "stack": [{"backend": "threading"}, {"verbose": 7}], "exits": ["exc", "normal"]})
    ctx.assumptions += ["reference resolver: explicit > innermost context > outer > default per key; a context-chosen backend replaced by the default thread backend takes the context's n_jobs with it (pinned by the test-suite)",
                        "(D) uses real threads stepped by semaphores; thread-locality is judged against the same program run alone"]
    return {"states": states + n, "transitions": trans + n, "traces_validated_against_impl": n + nb + nc + nd,
            "evaluations": n + nb + nc + nd, "distinct_nontrivial": states + outcomes,
            "resolution_cases": n, "precedence_cases": nb, "scoping_stacks": nc, "thread_interleavings": nd}


def replay(data):
    print(data)
    if data.get("part") == "A":
        cms = []
        for c in data["stack"]:
            cm = enter(data["ctxkind"], c)
            cm.__enter__()
            cms.append(cm)
        try:
            got, _p = construct(data["explicit"])
        finally:
            for cm in reversed(cms):
                cm.__exit__(None, None, None)
        want = reference(data["stack"], data["explicit"])
        print("got", got, "reference", want)
        if got != want:
            print("VIOLATION property=C17 replay=<this file>")
            return 1
        return 0
    return 1
