"""C02 - a Memory-cached function never returns a value belonging to other arguments.

Bounded-exhaustive, end-to-end through the real Memory: every signature with <= n
parameters as plain function / bound method / functools.partial / async def, every
accepted call shape, every argument slot varied over a universe of near-colliding
typed values inside ONE cache directory (so any two values that collide are seen), three
passes (cold, warm via call_and_shelve(...).get(), warm in a fresh forked process).
"""

import asyncio
import inspect
import os
import shutil

from .. import core, memgen, sigs

LEVEL = "exploration"

NEAR = [None, True, False, 0, 1, -1, 0.0, 1.0, -0.0, 2 ** 31, 2 ** 70, "a", "", "1", b"a", b"",
        (1,), (1.0,), (True,), [1], [1.0], {1}, frozenset({1}), {"a": 1}, {1: "a"}, {True: "a"}, ("a",), ["a"],
        (), [], {}, set(), frozenset(), float("nan"), 1j, bytearray(b"a"), ("p", 0), ("k", "a")]


def fresh(v):
    """A fresh equal copy (no aliasing between calls)."""
    import copy
    return copy.deepcopy(v)


_MOD = None
_SIGS = None
_LOOP = None


def _setup(n):
    global _MOD, _SIGS
    _SIGS = sigs.enumerate_signatures(n)
    d = core.scratch_dir("c02mod")
    _MOD = memgen.make_module(d, _SIGS)


def call_plain(kind, fn, args, kwargs):
    if kind == "async":
        return _loop().run_until_complete(fn(*args, **kwargs))
    return fn(*args, **kwargs)


def _loop():
    global _LOOP
    if _LOOP is None:
        _LOOP = asyncio.new_event_loop()
    return _LOOP


def call_cached(kind, cf, args, kwargs, shelve=False):
    if shelve:
        if kind == "async":
            return _loop().run_until_complete(cf.call_and_shelve(*args, **kwargs)).get()
        return cf.call_and_shelve(*args, **kwargs).get()
    if kind == "async":
        return _loop().run_until_complete(cf(*args, **kwargs))
    return cf(*args, **kwargs)


def slots_of(shape):
    npos, kws = shape
    return [("pos", i) for i in range(npos)] + [("kw", k) for k in kws]


def build(shape, slot, value):
    args, kwargs = sigs.build_call(shape)
    args = list(args)
    if slot[0] == "pos":
        args[slot[1]] = value
    else:
        kwargs[slot[1]] = value
    return tuple(args), kwargs


def _tname(v):
    return type(v).__name__


def _work(item):
    tier, kind, idxs, compress_opts = item
    import joblib
    import joblib.memory as M
    import logging
    logging.disable(logging.CRITICAL)
    root = core.scratch_dir("c02-%d" % os.getpid())
    n = 0
    nontrivial = 0
    viols = {}

    def bad(sig_key, msg, rp):
        if sig_key not in viols:
            viols[sig_key] = [sig_key, msg, rp]

    for idx in idxs:
        s = _SIGS[idx]
        fn = memgen.get_callable(_MOD, kind, idx)
        try:
            pysig = inspect.signature(fn)
        except (TypeError, ValueError):
            continue
        shape_no = 0
        for shape in sigs.call_shapes(s, surplus_pos=1, surplus_kw=1):
            a0, k0 = sigs.build_call(shape)
            if sigs.interpreter_binding(s, a0, k0, method=(kind == "method")) is None:
                continue
            shape_no += 1
            for compress in compress_opts if tier != "quick" else (compress_opts[shape_no % len(compress_opts)],):
                for slot in slots_of(shape) or [None]:
                    loc = os.path.join(root, "c")
                    shutil.rmtree(loc, ignore_errors=True)
                    M._FUNCTION_HASHES.clear()
                    mem = joblib.Memory(loc, verbose=0, compress=compress)
                    cf = mem.cache(fn)
                    values = NEAR if slot is not None else [None]
                    expected = []
                    calls = []
                    for v in values:
                        if slot is None:
                            args, kwargs = a0, dict(k0)
                        else:
                            args, kwargs = build(shape, slot, fresh(v))
                        calls.append((args, kwargs))
                        expected.append(call_plain(kind, fn, *build(shape, slot, fresh(v))) if slot is not None else call_plain(kind, fn, a0, dict(k0)))
                    rp = {"kind": kind, "sig_index": idx, "signature": sigs.sig_label(s), "shape": [shape[0], list(shape[1])],
                          "slot": list(slot) if slot else None, "compress": compress, "n_params": _N}
                    for pas in (0, 1, 2):
                        if pas == 2:
                            if not (shape_no + idx) % 4 == 0:
                                continue
                            res = core.run_isolated(_pass_in_child, (kind, idx, loc, compress, shape, slot), timeout=60)
                            if res[0] != "ok":
                                bad("fresh-process-pass-fails|%s" % kind, "warm pass in a fresh process: %r" % (res,), rp)
                                continue
                            got_list = res[1]
                        else:
                            got_list = []
                            for (args, kwargs) in calls:
                                try:
                                    with core.time_limit(60):
                                        got_list.append(call_cached(kind, cf, args, dict(kwargs), shelve=(pas == 1)))
                                except core.Watchdog:
                                    got_list.append(("EXC", "NoTermination", "the cached call did not return within 60 s"))
                                except Exception as e:  # noqa
                                    got_list.append(("EXC", type(e).__name__, str(e)[:150]))
                        for j, got in enumerate(got_list):
                            n += 1
                            exp = expected[j]
                            if isinstance(got, list):
                                got = _untuple(got)
                            if got == exp:
                                continue
                            pk = _param_kind(s, shape, slot)
                            if isinstance(got, tuple) and got and got[0] == "EXC":
                                bad("raises:%s|%s|%s" % (got[1], kind, pk),
                                    "%s %s%s called with slot %r = %r (pass %d, compress=%r) raised %s: %s" % (
                                        kind, "def f", sigs.sig_label(s), slot, values[j], pas, compress, got[1], got[2]),
                                    dict(rp, value_index=j, pas=pas))
                                continue
                            other = [i for i, e in enumerate(expected) if e == got]
                            if other:
                                key = "collision(%s~%s)|%s|%s" % (_tname(values[other[0]]), _tname(values[j]), kind, pk)
                                msg = "%s def f%s: call with %r = %r returned the value of the call with %r (pass %d, compress=%r): got %r, expected %r" % (
                                    kind, sigs.sig_label(s), slot, values[j], values[other[0]], pas, compress, got, exp)
                            else:
                                key = "wrong-value|%s|%s" % (kind, pk)
                                msg = "%s def f%s: call with %r = %r returned %r instead of %r (pass %d, compress=%r)" % (
                                    kind, sigs.sig_label(s), slot, values[j], got, exp, pas, compress)
                            bad(key, msg, dict(rp, value_index=j, pas=pas))
                    nontrivial += len(values)
        # cross-shape history: every accepted call shape of this signature with ONE common value in every slot, issued
        # one after the other on one cache directory (two shapes that Python binds differently must not share an
        # entry: e.g. f(a=7) -> a=default, **{'a': 7} versus f(7, a=7))
        loc = os.path.join(root, "x")
        shutil.rmtree(loc, ignore_errors=True)
        M._FUNCTION_HASHES.clear()
        mem = joblib.Memory(loc, verbose=0)
        cf = mem.cache(fn)
        seen_exp = {}
        for shape in sigs.call_shapes(s, surplus_pos=1, surplus_kw=1):
            npos, kws = shape
            args, kwargs = tuple(7 for _ in range(npos)), {k: 7 for k in kws}
            if sigs.interpreter_binding(s, args, kwargs, method=(kind == "method")) is None:
                continue
            exp = call_plain(kind, fn, args, dict(kwargs))
            for pas in (0, 1):
                n += 1
                try:
                    with core.time_limit(60):
                        got = call_cached(kind, cf, args, dict(kwargs))
                except Exception as e:  # noqa
                    got = ("EXC", type(e).__name__, str(e)[:150])
                if got != exp:
                    rp = {"kind": kind, "sig_index": idx, "signature": sigs.sig_label(s), "shape": [npos, list(kws)], "slot": None,
                          "compress": False, "n_params": _N, "cross_shape": True}
                    prev = seen_exp.get(repr(got))
                    bad("cross-shape|%s|%s" % ("collision" if prev else "wrong-value" if not (isinstance(got, tuple) and got[:1] == ("EXC",)) else "raises:" + got[1], kind),
                        "%s def f%s: after the calls %s the call with %d positional(s) and keywords %s (all values 7) returned %r instead of %r%s" % (
                            kind, sigs.sig_label(s), sorted(seen_exp.values()), npos, list(kws), got, exp,
                            " - the value of the earlier call shape %s" % prev if prev else ""), rp)
            seen_exp[repr(exp)] = "npos=%d kw=%s" % (npos, ",".join(kws))
            nontrivial += 1
    shutil.rmtree(root, ignore_errors=True)
    return {"n": n, "nontrivial": nontrivial, "viol": list(viols.values())}


def _untuple(x):
    """JSON turns tuples into lists (fresh-process pass): normalise for comparison."""
    if isinstance(x, list):
        return tuple(_untuple(e) for e in x)
    return x


def _param_kind(s, shape, slot):
    if slot is None:
        return "no-args"
    names = sigs.param_names(s)
    kinds = [k for k, _ in s]
    if slot[0] == "pos":
        pos = [i for i, k in enumerate(kinds) if k in ("po", "pk")]
        if slot[1] < len(pos):
            return kinds[pos[slot[1]]]
        return "va"
    if slot[1] in names:
        return kinds[names.index(slot[1])]
    return "vk"


def _pass_in_child(arg):
    kind, idx, loc, compress, shape, slot = arg
    import joblib
    import joblib.memory as M
    M._FUNCTION_HASHES.clear()
    global _LOOP
    _LOOP = None
    fn = memgen.get_callable(_MOD, kind, idx)
    cf = joblib.Memory(loc, verbose=0, compress=compress).cache(fn)
    out = []
    values = NEAR if slot is not None else [None]
    for v in values:
        if slot is None:
            args, kwargs = sigs.build_call(shape)
        else:
            args, kwargs = build(shape, slot, fresh(v))
        try:
            out.append(call_cached(kind, cf, args, dict(kwargs)))
        except Exception as e:  # noqa
            out.append(("EXC", type(e).__name__, str(e)[:150]))
    return out


_N = None

SHARED_SRC = '''
import functools
from vf.values import render as _r


def f(a, b, k=3):
    return ("f", _r(a), _r(b), _r(k))


def g(a, b, k=3):
    return ("g", _r(a), _r(b), _r(k))


class Obj:
    def __init__(self, v):
        self.v = v

    def m(self, x):
        return ("m", self.v, _r(x))

    def __call__(self, x):
        return ("call", self.v, _r(x))


# same __name__, different qualified names (and one module-level function of that name)
def conv(x):
    return ("module conv", _r(x))


class KA:
    @staticmethod
    def conv(x):
        return ("KA.conv", _r(x))

    @classmethod
    def cm(cls, x):
        return ("KA.cm", _r(x))

    def meth(self, x):
        return ("KA.meth", _r(x))

    def __eq__(self, o):
        return type(o) is type(self)

    def __hash__(self):
        return 3


class KB:
    @staticmethod
    def conv(x):
        return ("KB.conv", _r(x))

    @classmethod
    def cm(cls, x):
        return ("KB.cm", _r(x))

    def meth(self, x):
        return ("KB.meth", _r(x))

    def __eq__(self, o):
        return type(o) is type(self)

    def __hash__(self):
        return 3


def outer1():
    def inner(x):
        return ("outer1.inner", _r(x))
    return inner


def outer2():
    def inner(x):
        return ("outer2.inner", _r(x))
    return inner


def deco(tag):
    def wrap(fn):
        @functools.wraps(fn)
        def wrapper(x):
            return (tag, fn(x))
        return wrapper
    return wrap


def base(x):
    return ("base", _r(x))


wrapped_a = deco("wrapper A")(base)
wrapped_b = deco("wrapper B")(base)
'''


def shared_directory(ctx):
    """Several callables cached in ONE directory, called alternately with equal arguments:
    partials of one function with different bound values, partials of two functions, bound methods
    and callable instances of objects with different state."""
    import functools
    import joblib
    import joblib.memory as M
    import logging
    logging.disable(logging.CRITICAL)
    d = core.scratch_dir("c02shared")
    with open(os.path.join(d, "vf_c02_shared.py"), "w") as fh:
        fh.write(SHARED_SRC)
    mod = memgen.load_module(os.path.join(d, "vf_c02_shared.py"), "vf_c02_shared")
    groups = {
        "partials-same-function": [functools.partial(mod.f, 1), functools.partial(mod.f, 2), functools.partial(mod.f, 1.0)],
        "partials-two-functions": [functools.partial(mod.f, 1), functools.partial(mod.g, 1)],
        "partials-keyword-bound": [functools.partial(mod.f, k=1), functools.partial(mod.f, k=2)],
        "methods-of-two-instances": [mod.Obj(1).m, mod.Obj(2).m, mod.Obj("1").m],
        "callable-instances": [mod.Obj(1), mod.Obj(2)],
        "function-and-partial": [mod.f, functools.partial(mod.f, 5)],
        # how the cache directory of a function is derived: same __name__ under different qualified names
        "staticmethods-same-name": [mod.KA.conv, mod.KB.conv, mod.conv],
        "classmethods-same-name": [mod.KA.cm, mod.KB.cm],
        "methods-same-name-two-classes": [mod.KA().meth, mod.KB().meth],
        "nested-functions-same-name": [mod.outer1(), mod.outer2()],
        # (functools.wraps wrappers are not grouped here: two wrappers of one function differing in a captured value are
        #  closures over differing captured values - outside the stated domain -, and a wrapper next to the function it
        #  wraps is two definitions under one name, which is C12's subject and known finding)
    }
    n = 0
    for gname, callables in groups.items():
        for compress in (False, True):
            for shelve in (False, True):
                loc = os.path.join(d, "cache")
                shutil.rmtree(loc, ignore_errors=True)
                M._FUNCTION_HASHES.clear()
                mem = joblib.Memory(loc, verbose=0, compress=compress)
                cached = [mem.cache(c) for c in callables]
                order = list(range(len(callables))) * 3 + list(reversed(range(len(callables))))
                for argset in ((5,), (5, 6)):
                    for i in order:
                        c = callables[i]
                        try:
                            want = c(*argset)
                        except TypeError:
                            continue
                        n += 1
                        try:
                            with core.time_limit(60):
                                got = cached[i].call_and_shelve(*argset).get() if shelve else cached[i](*argset)
                        except core.Watchdog:
                            got = "NO-TERMINATION"
                        except Exception as e:  # noqa
                            got = "raises %s: %s" % (type(e).__name__, str(e)[:100])
                        if got != want:
                            ctx.violation("shared-directory|%s" % gname,
                                          "%s cached in one directory (compress=%r, shelve=%r): callable #%d called with %r returned %r instead of %r" % (
                                              gname, compress, shelve, i, argset, got, want),
                                          {"part": "shared", "group": gname, "compress": compress, "shelve": shelve})
    shutil.rmtree(d, ignore_errors=True)
    return n


def run(ctx):
    global _N
    quick = ctx.tier == "quick"
    _N = 3 if quick else 4
    _setup(_N)
    idxs = list(range(len(_SIGS)))
    items = []
    copts = (False, True) if quick else (False, True, 3)
    for kind in memgen.KINDS:
        nchunk = 16 if quick else 48
        for c in range(nchunk):
            sub = idxs[c::nchunk]
            if sub:
                items.append((ctx.tier, kind, sub, copts))
    n = nontrivial = 0
    for res in core.pmap(_work, items):
        n += res["n"]
        nontrivial += res["nontrivial"]
        for v in res["viol"]:
            ctx.violation(*v)
    nshared = shared_directory(ctx)
    n += nshared
    ctx.rule = ("every signature with <= %d parameters x {plain function, bound method, functools.partial, async def} x every call "
                "shape Python accepts x every argument slot varied over %d near-colliding typed values inside one cache directory "
                "x passes {cold, warm through call_and_shelve().get(), warm in a fresh forked process (every 4th)} x compress; each "
                "returned value compared with the undecorated function; plus groups of callables (partials with different bound values, "
                "partials of two functions, methods / callable instances of objects with different state) cached in ONE directory and "
                "called alternately with equal arguments. evaluations = cached calls compared; distinct_nontrivial = "
                "distinct (function, shape, slot, value) cases" % (_N, len(NEAR)))
    ctx.exhaustive = True
    ctx.sample({"kind": "method", "signature": "def f(a, /, b=D, *va, c)", "shape": [2, ["c"]], "slot": ["pos", 0], "values": [repr(v) for v in NEAR[:8]]})
    ctx.assumptions += ["functions are pure functions of their arguments returning a typed rendering of what was bound",
                        "fresh-process pass is a fork with joblib.memory._FUNCTION_HASHES cleared (hash-seed variation is C08's)",
                        "lambdas / closures are outside the domain"]
    return {"evaluations": n, "distinct_nontrivial": nontrivial, "signatures": len(_SIGS), "kinds": len(memgen.KINDS),
            "shared_directory_calls": nshared}


def replay(data):
    global _N
    _N = data["n_params"]
    _setup(_N)
    res = _work(("thorough", data["kind"], [data["sig_index"]], (data["compress"],)))
    for v in res["viol"]:
        print(v[0], v[1])
    if res["viol"]:
        print("VIOLATION property=C02 replay=<this file>")
        return 1
    return 0
