"""C08 - joblib.hash deterministic, order-insensitive, type-discriminating.

The recursive typed universe (vf.values) is hashed in separate interpreter
processes with different PYTHONHASHSEED values, md5 and sha1; every insertion
order of every dict/set/frozenset node with <= 4 elements is rebuilt and
hashed; all pairs are compared for discrimination by grouping on digest.
"""

import json
import os
import subprocess
import sys

from .. import core, values as V

LEVEL = "exploration"


def _kinds(spec, acc=None):
    acc = set() if acc is None else acc
    if spec[0] == "atom":
        return acc
    acc.add(spec[0])
    for c in spec[1]:
        if spec[0] == "dict":
            _kinds(c[0], acc)
            _kinds(c[1], acc)
        else:
            _kinds(c, acc)
    return acc


def _node_kind(spec, path):
    node = spec
    for p in path:
        node = node[1][p] if node[0] != "dict" or isinstance(node[1][p], tuple) and False else node[1][p]
    return node[0]


def _node_at(spec, path):
    node = spec
    i = 0
    while i < len(path):
        if node[0] == "dict":
            node = node[1][path[i]][path[i + 1]]
            i += 2
        else:
            node = node[1][path[i]]
            i += 1
    return node


def worker(depth, hash_name, out_path, order="fwd"):
    import joblib as _joblib

    class joblib:                       # noqa  (a digest that cannot be computed is an observation, not a crash)
        @staticmethod
        def hash(value, hash_name="md5"):
            try:
                return _joblib.hash(value, hash_name=hash_name)
            except Exception as e:  # noqa
                return "RAISES:%s: %s" % (type(e).__name__, str(e)[:80])
    specs = V.universe(depth)
    if order == "rev":
        specs = list(reversed(specs))
    table = {}
    order_bad = []
    nvariants = 0
    for s in specs:
        c = V.canon(s)
        d0 = joblib.hash(V.build(s), hash_name=hash_name)
        d1 = joblib.hash(V.build(s), hash_name=hash_name)
        if d0 != d1:
            order_bad.append([c, "rebuild", "same-process rebuild gives another digest"])
        table[c] = d0
        for perm in V.insertion_variants(s):
            nvariants += 1
            d = joblib.hash(V.build(s, perm), hash_name=hash_name)
            if d != d0:
                (path, p), = perm.items()
                order_bad.append([c, _node_at(s, path)[0], "insertion order %s at node %s" % (list(p), list(path))])
    # purity: hashing the universe again in the opposite order must give the same digests
    # (a digest that depends on what was hashed earlier in the process is not a function of the value)
    for s in reversed(specs):
        c = V.canon(s)
        d = joblib.hash(V.build(s), hash_name=hash_name)
        if d != table[c]:
            order_bad.append([c, "history", "hashing history: digest %s when hashed after the rest of the universe, %s before" % (d, table[c])])
    # equal but distinct str / bytes objects vs the same object twice
    ident_bad = []
    for label, mk in (("str", lambda: "".join(["spam", "eggs"])), ("bytes", lambda: bytes(bytearray(b"spameggs")))):
        x = mk()
        y = mk()
        assert x is not y and x == y
        for shape, (u, w) in (("list", ([x, x], [x, y])), ("dict", ({1: x, 2: x}, {1: x, 2: y})),
                              ("tuple", ((x, x), (x, y)))):
            if joblib.hash(u, hash_name=hash_name) != joblib.hash(w, hash_name=hash_name):
                ident_bad.append([label, shape])
    with open(out_path, "w") as f:
        json.dump({"table": table, "order_bad": order_bad, "ident_bad": ident_bad,
                   "nvariants": nvariants, "hashseed": os.environ.get("PYTHONHASHSEED"),
                   "flags_hash_randomization": sys.flags.hash_randomization}, f)


def _spawn(depth, hash_name, seed, out_path, order="fwd"):
    env = dict(os.environ)
    env["PYTHONHASHSEED"] = str(seed)
    return subprocess.Popen([sys.executable, "-m", "vf.checks.c08", "--worker", str(depth), hash_name, out_path, order],
                            env=env, cwd=core.ROOT, stdin=subprocess.DEVNULL)


def run(ctx):
    depth = 3
    seeds = ["0", "1", "2", "3", "random"] if ctx.tier == "quick" else \
        ["0", "1", "2", "3", "4", "5", "7", "11", "12345", "4294967295", "random", "random"]
    # VERIF_SEED rotates one extra fixed seed in
    seeds.append(str(100 + ctx.seed % 1000))
    d = core.scratch_dir("c08")
    jobs = []
    for hn in ("md5", "sha1"):
        for i, sd in enumerate(seeds):
            out = os.path.join(d, "%s-%d.json" % (hn, i))
            jobs.append((hn, sd, out, "fwd"))
        # same seed, the universe hashed in the opposite order in a fresh process
        jobs.append((hn, seeds[0], os.path.join(d, "%s-rev.json" % hn), "rev"))
    results = {}
    pending = list(jobs)
    running = []
    while pending or running:
        while pending and len(running) < core.NPROC:
            hn, sd, out, order = pending.pop(0)
            running.append((hn, sd, out, order, _spawn(depth, hn, sd, out, order)))
        hn, sd, out, order, p = running.pop(0)
        if p.wait() != 0:
            raise core.HarnessError("c08 worker failed (seed %s, %s)" % (sd, hn))
        with open(out) as f:
            results[(hn, sd, out)] = json.load(f)
            results[(hn, sd, out)]["order"] = order
        os.unlink(out)
    specs = V.universe(depth)
    by_canon = {V.canon(s): s for s in specs}
    evaluations = 0
    nvariants = 0
    for hn in ("md5", "sha1"):
        tabs = [(k, r) for k, r in results.items() if k[0] == hn]
        ref_key, ref = tabs[0]
        for (h, sd, _), r in tabs:
            evaluations += len(r["table"]) + r["nvariants"] + 12
            nvariants += r["nvariants"]
            if set(r["table"]) != set(ref["table"]):
                raise core.HarnessError("universe differs between processes")
            for c, dg in r["table"].items():
                if dg.startswith("RAISES:"):
                    kinds = "+".join(sorted(_kinds(by_canon[c]) & {"set", "frozenset", "dict"})) or "ordered"
                    ctx.violation("hash-raises:%s|%s" % (dg.split(":")[1], kinds),
                                  "joblib.hash(%s, %r) raised %s (PYTHONHASHSEED=%s)" % (c, hn, dg[7:], sd),
                                  {"kind": "seed", "canon": c, "hash_name": hn, "seeds": [sd], "depth": depth})
            for c, dg in r["table"].items():
                if dg != ref["table"][c]:
                    kinds = "+".join(sorted(_kinds(by_canon[c]) & {"set", "frozenset", "dict"})) or "ordered"
                    if r.get("order") == "rev" and sd == ref_key[1]:
                        ctx.violation("history-dependent|%s" % kinds,
                                      "joblib.hash(%s, %r) is %s when the universe is hashed simplest-first but %s when hashed in the opposite order in a fresh process (same PYTHONHASHSEED=%s): the digest depends on what was hashed before" % (c, hn, ref["table"][c], dg, sd),
                                      {"kind": "history", "canon": c, "hash_name": hn, "seeds": [sd], "depth": depth})
                        continue
                    ctx.violation("seed-dependent|%s" % kinds,
                                  "joblib.hash(%s, %r) is %s with PYTHONHASHSEED=%s but %s with PYTHONHASHSEED=%s"
                                  % (c, hn, ref["table"][c], ref_key[1], dg, sd),
                                  {"kind": "seed", "canon": c, "hash_name": hn, "seeds": [ref_key[1], sd], "depth": depth})
            for c, nodekind, what in r["order_bad"]:
                ctx.violation(("insertion-order|%s" % nodekind) if nodekind != "history" else "history-dependent",
                              "joblib.hash(%s, %r) changes with %s (PYTHONHASHSEED=%s)" % (c, hn, what, sd),
                              {"kind": "order", "canon": c, "hash_name": hn, "seeds": [sd], "depth": depth})
            for label, shape in r["ident_bad"]:
                ctx.violation("object-identity|%s" % label,
                              "joblib.hash of a %s holding the same %s object twice differs from two equal distinct objects" % (shape, label),
                              {"kind": "identity", "label": label, "shape": shape, "hash_name": hn, "seeds": [sd], "depth": depth})
            # discrimination: all pairs, by grouping on digest
            groups = {}
            for c, dg in r["table"].items():
                groups.setdefault(dg, []).append(c)
            for dg, cs in groups.items():
                if len(cs) > 1:
                    cs = sorted(cs, key=len)
                    ka = V and cs[0].split("(")[0].split("{")[0].split(":")[0]
                    kb = cs[1].split("(")[0].split("{")[0].split(":")[0]
                    ctx.violation("collision|%s~%s" % tuple(sorted((ka, kb))),
                                  "distinct values share digest %s (%s): %s" % (dg, hn, " ; ".join(cs[:4])),
                                  {"kind": "collision", "canons": cs[:4], "hash_name": hn, "seeds": [sd], "depth": depth})
    n = len(specs)
    ctx.rule = ("typed value universe of depth %d (atoms, containers of atoms, containers of containers; "
                "mixed-type keys/elements, no ==-equal keys in one container, no aliasing) hashed in %d "
                "interpreter processes (PYTHONHASHSEED in %s x md5/sha1); every non-identity insertion order of "
                "every dict/set/frozenset node with <= 4 elements (reversal+rotation above); discrimination = "
                "all pairs via grouping on digest; distinct = canonical typed rendering; non-trivial = all "
                "(every value takes part in n-1 pairs)" % (depth, len(results), sorted(set(seeds))))
    ctx.exhaustive = True
    for c in list(by_canon)[5::max(1, n // 5)][:5]:
        ctx.sample(c)
    ctx.assumptions += ["values without aliased sub-objects; tuple/frozenset aliasing ([t, t] vs two equal tuples) is outside the stated property and not compared",
                        "'random' seeds are chosen by the interpreter; fixed seeds make the run reproducible"]
    return {"evaluations": evaluations, "distinct_nontrivial": n, "universe_values": n,
            "pairs_compared_per_table": n * (n - 1) // 2, "processes": len(results),
            "insertion_order_variants": nvariants}


def replay(data):
    import joblib
    specs = {V.canon(s): s for s in V.universe(data["depth"])}
    print(json.dumps(data, indent=1)[:2000])
    if data["kind"] in ("seed", "order"):
        outs = []
        d = core.scratch_dir("c08r")
        for sd in data["seeds"]:
            out = os.path.join(d, "r%s.json" % sd)
            _spawn(data["depth"], data["hash_name"], sd, out).wait()
            with open(out) as f:
                r = json.load(f)
            outs.append((r["table"][data["canon"]], [b for b in r["order_bad"] if b[0] == data["canon"]]))
        print(outs)
        bad = len({o[0] for o in outs}) > 1 or any(o[1] for o in outs)
    elif data["kind"] == "collision":
        ds = [joblib.hash(V.build(specs[c]), hash_name=data["hash_name"]) for c in data["canons"]]
        print(ds)
        bad = len(set(ds)) < len(ds)
    else:
        bad = True
    if bad:
        print("VIOLATION property=C08 replay=<this file>")
        return 1
    return 0


if __name__ == "__main__":
    if len(sys.argv) > 1 and sys.argv[1] == "--worker":
        worker(int(sys.argv[2]), sys.argv[3], sys.argv[4], sys.argv[5] if len(sys.argv) > 5 else "fwd")
