"""C20 - tracked temporary resources are deleted exactly when their last user is gone.

(a) explicit-state search (BFS to fixpoint) driving the REAL resource_tracker.main() loop
    in-process: its `open` is rebound to a fake pipe whose readline() hands out the next
    command and, before doing so, reads the real `registry` out of main()'s frame and
    inspects the file system, so every transition of the real loop is observed and compared
    with a dict/set reference model; end-of-input clean-up is checked from every state.
(b) real processes: one real tracker process, 1-2 client processes running every history of
    length <= L, each exiting normally or killed (SIGKILL) after its share; after the last
    writer is gone the tracker must exit and the model's post-state must hold on disk.
(c) TemporaryResourcesManager request sequences captured at the tracker's _send seam.
"""

import collections
import contextlib
import io
import itertools
import os
import shutil
import signal
import sys
import time
import types
import warnings

from .. import core

LEVEL = "model_checking"

VERBS = ("REGISTER", "UNREGISTER", "MAYBE_UNLINK")


def paths(base):
    # the protocol is "CMD:name:rtype" lines: the file's name contains the separator (as every Windows path does),
    # the folder's name a space and a dot
    A = os.path.join(base, "a:1:x")
    D = os.path.join(base, "d .v2")
    B = os.path.join(D, "b")
    return A, B, D


def reset_fs(base):
    A, B, D = paths(base)
    shutil.rmtree(base, ignore_errors=True)
    os.makedirs(D)
    open(A, "w").close()
    open(B, "w").close()


def fs_state(base):
    A, B, D = paths(base)
    return (os.path.exists(A), os.path.exists(B), os.path.exists(D))


def alphabet(base, full=True):
    A, B, D = paths(base)
    al = [(v, n, t) for v in VERBS for (n, t) in ((A, "file"), (B, "file"), (D, "folder"))]
    if full:
        al += [("PROBE", "x", "file"), ("BOGUS", A, "file"), ("REGISTER", A, "nosuchtype"),
               ("RAW", "", ""), ("RAW", "garbage-without-separators", ""), ("RAW", "\xff\xfe:binary", ""),
               ("MAYBE_UNLINK", os.path.join(base, "never-registered"), "file"),
               ("REGISTER", D, "file")]
    return al


class Model:
    """Reference: name -> count per type, and the set of existing paths."""

    def __init__(self, base):
        self.base = base
        self.A, self.B, self.D = paths(base)
        self.reg = {"file": {}, "folder": {}}
        self.fs = {self.A: True, self.B: True, self.D: True}

    def rm(self, n, t):
        if t == "file":
            if n == self.D:
                return            # os.unlink of a directory fails: nothing is removed
            if n in self.fs:
                self.fs[n] = False
        else:
            if n == self.D:
                self.fs[self.D] = False
                self.fs[self.B] = False

    def step(self, cmd):
        v, n, t = cmd
        if v in ("PROBE", "RAW") or t not in self.reg or v not in VERBS:
            return
        r = self.reg[t]
        if v == "REGISTER":
            r[n] = r.get(n, 0) + 1
        elif v == "UNREGISTER":
            r.pop(n, None)
        elif n in r:
            r[n] -= 1
            if r[n] == 0:
                del r[n]
                self.rm(n, t)

    def eof(self):
        for n in list(self.reg["file"]):
            self.rm(n, "file")
        for n in list(self.reg["folder"]):
            self.rm(n, "folder")

    def fs_tuple(self):
        return (self.fs[self.A], self.fs[self.B], self.fs[self.D])


def encode(cmd):
    v, n, t = cmd
    if v == "RAW":
        return (n + "\n").encode("latin-1")
    return ("%s:%s:%s\n" % (v, n, t)).encode()


class _FakeSys:
    stdin = types.SimpleNamespace(close=lambda: None)
    stdout = types.SimpleNamespace(close=lambda: None)
    platform = sys.platform
    exc_info = staticmethod(sys.exc_info)

    @staticmethod
    def excepthook(*a):
        pass


class _FakeSignal:
    SIGINT = 2
    SIGTERM = 15
    SIG_IGN = 1
    SIG_UNBLOCK = 1
    SIG_BLOCK = 0
    signal = staticmethod(lambda *a: None)
    pthread_sigmask = staticmethod(lambda *a: None)


class Mismatch(Exception):
    pass


def run_history(base, history):
    """Drives the real main() over `history`; returns (canonical state after the last command, loop_survived)."""
    from joblib.externals.loky.backend import resource_tracker as rt
    rt.sys = _FakeSys
    rt.signal = _FakeSignal
    reset_fs(base)
    m = Model(base)
    obs = []
    served = [0]

    class F:
        i = 0

        def __enter__(s):
            return s

        def __exit__(s, *a):
            return False

        def readline(s):
            reg = sys._getframe(1).f_locals["registry"]
            real = {t: dict(reg[t]) for t in ("file", "folder")}
            if s.i > 0:
                m.step(history[s.i - 1])
            if real != m.reg:
                raise Mismatch("registry after %r is %r, reference model says %r" % (history[:s.i], real, m.reg))
            if fs_state(base) != m.fs_tuple():
                raise Mismatch("files (a, d/b, d) after %r exist=%r, reference model says %r" % (history[:s.i], fs_state(base), m.fs_tuple()))
            extra = {t: c for t, c in reg.items() if t not in ("file", "folder") and c}
            if extra:
                raise Mismatch("registry has entries of other types: %r" % extra)
            obs.append((tuple(sorted((t, n, c) for t in real for n, c in real[t].items())), fs_state(base)))
            served[0] = s.i
            if s.i >= len(history):
                return b""
            cmd = history[s.i]
            s.i += 1
            return encode(cmd)

    rt.open = lambda fd, mode: F()
    try:
        with contextlib.redirect_stderr(io.StringIO()), warnings.catch_warnings():
            warnings.simplefilter("ignore")
            rt.main(0)
    finally:
        del rt.open
    if served[0] < len(history):
        raise Mismatch("the tracker loop stopped after %d of %d commands: %r" % (served[0], len(history), history))
    m.eof()
    if fs_state(base) != m.fs_tuple():
        raise Mismatch("after end-of-input clean-up following %r files (a, d/b, d) exist=%r, reference model says %r" % (history, fs_state(base), m.fs_tuple()))
    return obs[-1]


def classify(msg):
    if "loop stopped" in msg:
        return "loop-stopped"
    if "end-of-input" in msg:
        return "eof-cleanup"
    if "registry" in msg:
        return "refcount"
    return "premature-or-missing-delete"


def bfs(cap, full):
    base = core.scratch_dir("c20a")
    al = alphabet(base, full)
    viols = []
    try:
        seen = {run_history(base, [])}
    except Mismatch as e:
        return {"states": 0, "transitions": 0, "depth": 0, "viol": [["initial", str(e), {"part": "a", "history": []}]]}
    frontier = collections.deque([[]])
    trans = 0
    maxd = 0
    while frontier:
        h = frontier.popleft()
        for ev in al:
            nh = h + [ev]
            try:
                st = run_history(base, nh)
            except Mismatch as e:
                trans += 1
                rel = [[c[0], os.path.relpath(c[1], base) if c[1].startswith(base) else c[1], c[2]] for c in nh]
                viols.append(["tracker-loop|%s" % classify(str(e)), str(e).replace(base, "<tmp>"), {"part": "a", "history": rel, "cap": cap}])
                continue
            trans += 1
            if any(c > cap for (_, _, c) in st[0]):
                continue
            if st not in seen:
                seen.add(st)
                frontier.append(nh)
                maxd = max(maxd, len(nh))
    shutil.rmtree(base, ignore_errors=True)
    return {"states": len(seen), "transitions": trans, "depth": maxd, "viol": viols, "alphabet": len(al)}


# -- (b) real processes -----------------------------------------------------------------

_SLOW = [0]


def _patience(seconds):
    """Waiting is by polling, so a healthy tracker costs nothing even on a loaded machine; once two scenarios of this
    worker have run into the time-out the tree is broken anyway and the rest waits only briefly."""
    return seconds if _SLOW[0] < 2 else 3.0


def real_scenario(item):
    """item = (history, split, kill1, kill2); runs one real tracker + sequential clients."""
    history, split, kill1, kill2 = item
    from joblib.externals.loky.backend.resource_tracker import ResourceTracker
    base = core.scratch_dir("c20b-%d" % os.getpid())
    reset_fs(base)
    A, B, D = paths(base)
    names = {"A": A, "B": B, "D": D}
    hist = [(v, names[n], t) for (v, n, t) in history]
    devnull = os.open(os.devnull, os.O_WRONLY)
    saved = os.dup(2)
    os.dup2(devnull, 2)
    try:
        rt = ResourceTracker()
        with warnings.catch_warnings():
            warnings.simplefilter("ignore")
            rt.ensure_running()
        tracker_pid = rt._pid
        m = Model(base)
        shares = [(hist[:split], kill1), (hist[split:], kill2)]
        problems = []
        for share, kill in shares:
            pid = os.fork()
            if pid == 0:
                try:
                    for (v, n, t) in share:
                        rt._send(v, n, t)
                finally:
                    if kill:
                        os.kill(os.getpid(), signal.SIGKILL)
                    os._exit(0)
            os.waitpid(pid, 0)
            for c in share:
                m.step(c)
            # the tracker must converge to the model state while the parent still holds the pipe
            deadline = time.time() + _patience(60.0)
            while time.time() < deadline and fs_state(base) != m.fs_tuple():
                time.sleep(0.005)
            if fs_state(base) != m.fs_tuple():
                _SLOW[0] += 1
                problems.append("with a writer still connected, after %r files (a, d/b, d) exist=%r, model=%r" % (share, fs_state(base), m.fs_tuple()))
        os.close(rt._fd)
        rt._fd = None
        # tracker must exit on EOF
        deadline = time.time() + _patience(90.0)
        exited = False
        while time.time() < deadline:
            p, _st = os.waitpid(tracker_pid, os.WNOHANG)
            if p == tracker_pid:
                exited = True
                break
            time.sleep(0.005)
        if not exited:
            _SLOW[0] += 1
            problems.append("tracker process still alive long after the last client closed the pipe (waited up to 90 s)")
            os.kill(tracker_pid, signal.SIGKILL)
            os.waitpid(tracker_pid, 0)
        m.eof()
        if exited and fs_state(base) != m.fs_tuple():
            problems.append("after the tracker exited files (a, d/b, d) exist=%r, model=%r" % (fs_state(base), m.fs_tuple()))
    finally:
        os.dup2(saved, 2)
        os.close(saved)
        os.close(devnull)
        shutil.rmtree(base, ignore_errors=True)
    return [p.replace(base, "<tmp>") for p in problems]


def real_work(chunk):
    out = []
    n = 0
    for item in chunk:
        n += 1
        probs = real_scenario(item)
        for p in probs:
            kind = "tracker-not-exiting" if "still alive" in p else "real-process-state"
            out.append(["tracker-process|%s" % kind, "history %r split at %d (kills %r/%r): %s" % (item[0], item[1], item[2], item[3], p),
                        {"part": "b", "history": [list(c) for c in item[0]], "split": item[1], "kill1": item[2], "kill2": item[3]}])
    return {"n": n, "viol": out[:10]}


def real_items(L):
    al = [(v, n, t) for v in VERBS for (n, t) in (("A", "file"), ("B", "file"), ("D", "folder"))]
    items = []
    for k in range(1, L + 1):
        for h in itertools.product(al, repeat=k):
            # only histories that register something (others are covered by (a) and cost a process each)
            if not any(c[0] == "REGISTER" for c in h):
                continue
            for split in range(0, k + 1):
                for kill1, kill2 in ((False, False), (True, False), (False, True), (True, True)):
                    if split == 0 and kill1:
                        continue
                    if split == k and kill2:
                        continue
                    items.append((h, split, kill1, kill2))
    return items


# -- (c) TemporaryResourcesManager ------------------------------------------------------

def manager_sequences(ctx):
    """Drive TemporaryResourcesManager over operation sequences with the tracker's requests captured."""
    from joblib import _memmapping_reducer as MR
    from joblib.externals.loky.backend import resource_tracker as rt
    sent = []
    orig = rt._resource_tracker._send
    orig_ensure = rt._resource_tracker.ensure_running
    counts = collections.Counter()

    def fake_send(cmd, name, rtype):
        # synchronous stand-in for the tracker process (same refcount rule as the reference model)
        sent.append((cmd, name, rtype, counts[(name, rtype)]))
        if cmd == "REGISTER":
            counts[(name, rtype)] += 1
        elif cmd == "UNREGISTER":
            counts[(name, rtype)] = 0
        elif cmd == "MAYBE_UNLINK" and counts[(name, rtype)] > 0:
            counts[(name, rtype)] -= 1
            if counts[(name, rtype)] == 0:
                if rtype == "file":
                    with contextlib.suppress(OSError):
                        os.unlink(name)
                else:
                    shutil.rmtree(name, ignore_errors=True)

    rt._resource_tracker._send = fake_send
    rt._resource_tracker.ensure_running = lambda: None
    import joblib.disk as JD
    orig_time = JD.time
    JD.time = types.SimpleNamespace(sleep=lambda s: None)   # delete_folder's retry pause
    n = 0
    try:
        ops = ["ctx1", "ctx2", "file", "clean", "clean-force", "clean-all"]
        base = core.scratch_dir("c20c")
        for L in (1, 2, 3, 4):
            for seq in itertools.product(ops, repeat=L):
                n += 1
                del sent[:]
                tmp = os.path.join(base, "t%d" % n)
                os.makedirs(tmp)
                mgr = MR.TemporaryResourcesManager(tmp)
                reg = collections.Counter()
                files = []
                try:
                    for op in seq:
                        if op in ("ctx1", "ctx2"):
                            mgr.set_current_context(op)
                            mgr.resolve_temp_folder_name()
                        elif op == "file":
                            # what the memmap reducer does when it dumps an array for a worker
                            mgr.set_current_context(mgr._current_context_id)
                            folder = mgr.resolve_temp_folder_name()
                            os.makedirs(folder, exist_ok=True)
                            p = os.path.join(folder, "f%d" % len(files))
                            open(p, "w").close()
                            rt.register(p, "file")
                            files.append(p)
                        elif op == "clean":
                            mgr._clean_temporary_resources(context_id=mgr._current_context_id, force=False)
                        elif op == "clean-force":
                            mgr._clean_temporary_resources(context_id=mgr._current_context_id, force=True)
                        else:
                            mgr._clean_temporary_resources(force=True)
                    for cmd, name, rtype, before in sent:
                        if cmd == "MAYBE_UNLINK" and before <= 0:
                            ctx.violation("manager|unlink-unregistered", "sequence %r sends MAYBE_UNLINK for %s whose count is already 0" % (seq, os.path.basename(name)),
                                          {"part": "c", "sequence": list(seq)})
                        if not name.startswith(tmp):
                            ctx.violation("manager|foreign-path", "sequence %r sends %s for a path outside its temp folder: %s" % (seq, cmd, name),
                                          {"part": "c", "sequence": list(seq)})
                except Exception as e:  # noqa
                    ctx.violation("manager|raises:%s" % type(e).__name__, "sequence %r raised %s: %s" % (seq, type(e).__name__, e),
                                  {"part": "c", "sequence": list(seq)})
                import atexit
                for fin in list(mgr._finalizers.values()):
                    atexit.unregister(fin)
                left = os.listdir(tmp) if seq and seq[-1] == "clean-all" else []
                if left:
                    ctx.violation("manager|leftover-after-clean-all", "sequence %r ends with a forced clean of all contexts but %r still exist on disk" % (seq, left),
                                  {"part": "c", "sequence": list(seq)})
                shutil.rmtree(tmp, ignore_errors=True)
    finally:
        rt._resource_tracker._send = orig
        rt._resource_tracker.ensure_running = orig_ensure
        JD.time = orig_time
    return n


def run(ctx):
    quick = ctx.tier == "quick"
    cap = 2 if quick else 3
    res = bfs(cap, True)
    for v in res["viol"]:
        ctx.violation(*v)
    L = 2 if quick else 3
    items = real_items(L)
    if quick:
        from ..parcommon import rotate_slice
        items = items + rotate_slice(real_items(3), ctx.seed, 40)
    chunks = [items[i::48] for i in range(48)]
    nb = 0
    for r in core.pmap(real_work, [c for c in chunks if c]):
        nb += r["n"]
        for v in r["viol"]:
            ctx.violation(*v)
    nc = manager_sequences(ctx)
    ctx.rule = ("(a) BFS to fixpoint over a %d-letter command alphabet ({REGISTER, UNREGISTER, MAYBE_UNLINK} x {file a, file d/b, folder d}, "
                "PROBE, unknown verb, unknown type, empty / garbled / non-ascii lines, never-registered name, folder registered as file) "
                "on the real resource_tracker.main() loop with refcounts capped at %d, states merged on (real registry, existence of a, "
                "d/b, d); every edge and the end-of-input clean-up from every state compared with the reference model. (b) %d "
                "real-process scenarios: histories of length <= %d split over two sequential clients, each exiting or SIGKILLed. "
                "(c) %d TemporaryResourcesManager operation sequences of length <= 4 with requests captured at _send."
                % (res.get("alphabet", 0), cap, nb, L, nc))
    ctx.exhaustive = True
    ctx.sample({"part": "a", "history": [["REGISTER", "d", "folder"], ["REGISTER", "d/b", "file"], ["MAYBE_UNLINK", "d", "folder"]]})
    ctx.sample({"part": "b", "history": [["REGISTER", "A", "file"], ["REGISTER", "A", "file"]], "split": 1, "kill1": True, "kill2": False})
    ctx.assumptions += ["main() is driven in-process by rebinding resource_tracker.open/sys/signal; registry is read from main()'s frame",
                        "(b): commands of different clients reach the tracker through one pipe, so client interleavings reduce to one command sequence; kills are SIGKILL after a client's share"]
    return {"states": res["states"], "transitions": res["transitions"], "traces_validated_against_impl": res["transitions"] + nb + nc,
            "evaluations": res["transitions"] + nb + nc, "distinct_nontrivial": res["states"] + nb,
            "bfs_max_depth": res["depth"], "real_process_scenarios": nb, "manager_sequences": nc}


def replay(data):
    print(data)
    if data.get("part") == "a":
        base = core.scratch_dir("c20r")
        hist = []
        for v, n, t in data["history"]:
            hist.append((v, os.path.join(base, n) if not os.path.isabs(n) and v != "RAW" and n != "x" else n, t))
        try:
            print(run_history(base, hist))
        except Mismatch as e:
            print(e)
            print("VIOLATION property=C20 replay=<this file>")
            return 1
        return 0
    if data.get("part") == "b":
        probs = real_scenario((tuple(tuple(c) for c in data["history"]), data["split"], data["kill1"], data["kill2"]))
        print(probs)
        if probs:
            print("VIOLATION property=C20 replay=<this file>")
            return 1
        return 0
    return 1
