"""C19 - numpy arrays persist bit-exactly and memory-map faithfully (runs under /verif/.venv, numpy installed).

Bounded-exhaustive enumeration: dtype x shape x memory layout x subclass x nesting (alignment
padding 0..15) x compressor / protocol through the real joblib.dump / joblib.load, all mmap
modes on uncompressed files, and automatic memmapping of arguments passed to loky workers for
max_nbytes thresholds around the array size.
"""

import io
import itertools
import json
import os
import shutil
import signal
import subprocess
import sys
import time

from .. import core

LEVEL = "exploration"


def np_():
    import numpy as np
    return np


DTYPES = ["bool", "i1", "u2", "<i4", ">i4", "<f8", ">f8", "c16", "S3", "U2", "M8[ns]", "m8[s]",
          "struct-aligned", "struct-packed", "struct-nested", "struct-bigendian", "object", "f2", "<u8",
          # records mixing native and non-native fields, and non-native fields next to fields without byte order
          "struct-mixed-endian", "struct-mixed-nested", "struct-big+bytes"]
SHAPES = [(), (0,), (1,), (3,), (2, 3), (0, 3), (2, 0, 2), (2, 3, 4)]
LAYOUTS = ["C", "F", "T", "strided", "negstride", "broadcast", "memmap", "memmap-slice"]
SUBCLASSES = ["ndarray", "matrix", "user"]


def make_dtype(name):
    np = np_()
    if name == "struct-aligned":
        return np.dtype([("a", "i1"), ("b", "<f8"), ("c", "S2")], align=True)
    if name == "struct-packed":
        return np.dtype([("a", "i1"), ("b", "<f8"), ("c", "<u2")])
    if name == "struct-nested":
        return np.dtype([("p", [("x", "<i2"), ("y", "<f4")]), ("q", "<i8", (2,))])
    if name == "struct-bigendian":
        return np.dtype([("a", ">i4"), ("b", ">f8")])
    if name == "struct-mixed-endian":
        return np.dtype([("a", "<i4"), ("b", ">f8"), ("c", "<u2")])
    if name == "struct-mixed-nested":
        return np.dtype([("p", [("x", "<i4"), ("y", ">i2")]), ("q", ">i4")])
    if name == "struct-big+bytes":
        return np.dtype([("a", ">i4"), ("s", "S3"), ("u", "u1")])
    if name == "object":
        return np.dtype(object)
    return np.dtype(name)


def fill(dt, n):
    """Deterministic 1-D content of n elements of dtype dt."""
    np = np_()
    if dt == np.dtype(object):
        vals = [None, 1, "s", (1, 2), 2.5, [3], {"k": 1}, b"b"]
        a = np.empty(n, dtype=object)
        for i in range(n):
            a[i] = vals[i % len(vals)]
        return a
    if dt.fields:
        a = np.zeros(n, dtype=dt)
        raw = (np.arange(n * dt.itemsize, dtype=np.uint8) * 7 + 3).astype(np.uint8)
        flat = a.view(np.uint8) if dt.itemsize and n else None
        if flat is not None:
            flat[:] = raw[: flat.size]
            # keep padding bytes of aligned structs as generated: bytes are compared over fields below
        return a
    if dt.kind == "b":
        return (np.arange(n) % 2).astype(dt)
    if dt.kind in "iu":
        return (np.arange(n) * 37 - 5).astype(dt)
    if dt.kind == "f":
        a = (np.arange(n) * 1.25 - 2).astype(dt)
        if n > 1:
            a[1] = np.nan
        if n > 2:
            a[2] = -0.0
        return a
    if dt.kind == "c":
        return ((np.arange(n) * 1.5) + 1j * (np.arange(n) - 1)).astype(dt)
    if dt.kind == "S":
        return np.array([b"ab%d" % (i % 7) for i in range(n)], dtype=dt) if n else np.zeros(0, dtype=dt)
    if dt.kind == "U":
        return np.array(["é%d" % (i % 7) for i in range(n)], dtype=dt) if n else np.zeros(0, dtype=dt)
    if dt.kind == "M":
        return (np.arange(n) * 1000 + 10 ** 9).astype("i8").view(dt)
    if dt.kind == "m":
        return (np.arange(n) * 3 - 4).astype("i8").view(dt)
    raise ValueError(dt)


class UserArr(np_().ndarray if True else object):
    pass


def build_array(dname, shape, layout, subclass, d):
    """Returns the array or None if the combination does not exist."""
    np = np_()
    dt = make_dtype(dname)
    n = int(np.prod(shape)) if shape else 1
    if layout in ("memmap-T", "memmap-negstride", "memmap-colrev", "memmap-strided"):
        # views of a user's memmap whose memory order / direction differs from the backing file's
        if dt == np.dtype(object) or n == 0 or len(shape) != 2:
            return None
        path = os.path.join(d, "srcv-%s-%s.mm" % (dname.replace("[", "").replace("]", "").replace("<", "l").replace(">", "b"), "x".join(map(str, shape))))
        if layout == "memmap-T":
            mm = np.memmap(path, dtype=dt, mode="w+", shape=shape[::-1])
            mm[:] = fill(dt, n).reshape(shape[::-1])
            mm.flush()
            return mm.T
        if layout == "memmap-strided":
            mm = np.memmap(path, dtype=dt, mode="w+", shape=(2 * shape[0], shape[1]))
            mm[:] = fill(dt, 2 * n).reshape((2 * shape[0], shape[1]))
            mm.flush()
            return mm[::2]
        mm = np.memmap(path, dtype=dt, mode="w+", shape=shape)
        mm[:] = fill(dt, n).reshape(shape)
        mm.flush()
        return mm[::-1] if layout == "memmap-negstride" else mm[:, ::-1]
    if layout in ("memmap", "memmap-slice"):
        if dt == np.dtype(object) or n == 0:
            return None
        extra = 3 if layout == "memmap-slice" else 0
        path = os.path.join(d, "src-%s-%s.mm" % (dname.replace("[", "").replace("]", "").replace("<", "l").replace(">", "b"), "x".join(map(str, shape)) or "s"))
        total = n + extra
        mm = np.memmap(path, dtype=dt, mode="w+", shape=(total,))
        mm[:] = fill(dt, total)
        mm.flush()
        a = mm[extra:] if extra else mm
        a = a.reshape(shape) if shape else a.reshape(())
        if shape == ():
            return None
    elif layout == "C":
        a = fill(dt, n).reshape(shape)
    elif layout == "F":
        if len(shape) < 2:
            return None
        a = np.asfortranarray(fill(dt, n).reshape(shape))
    elif layout == "T":
        if len(shape) < 2:
            return None
        a = fill(dt, n).reshape(shape[::-1]).T
    elif layout == "strided":
        if len(shape) < 1 or shape[0] == 0:
            return None
        big = fill(dt, 2 * n).reshape((2 * shape[0],) + tuple(shape[1:]))
        a = big[::2]
    elif layout == "negstride":
        if len(shape) < 1 or n == 0:
            return None
        a = fill(dt, n).reshape(shape)[::-1]
    elif layout == "broadcast":
        if len(shape) != 2 or n == 0:
            return None
        a = np.broadcast_to(fill(dt, shape[1]), shape)
    else:
        raise ValueError(layout)
    if subclass == "matrix":
        if a.ndim != 2 or dt == np.dtype(object) and False:
            return None
        import warnings
        with warnings.catch_warnings():
            warnings.simplefilter("ignore")
            a = np.asmatrix(a) if layout in ("C",) else a.view(np.matrix)
    elif subclass == "user":
        a = a.view(UserArr)
    return a


def same_array(np, orig, got, check_subclass=True, byteorder_strict=True):
    """None if equal, else a short reason."""
    if not isinstance(got, np.ndarray):
        return "not-an-array(%s)" % type(got).__name__
    if got.shape != orig.shape:
        return "shape"
    if byteorder_strict:
        if got.dtype != orig.dtype:
            return "dtype"
    else:
        if got.dtype.newbyteorder("=") != orig.dtype.newbyteorder("=") and got.dtype != orig.dtype:
            return "dtype"
    if check_subclass:
        want_cls = type(orig)
        if want_cls is np.memmap:
            want_cls = (np.ndarray, np.memmap)
        if not (isinstance(got, want_cls) and (want_cls is not np.ndarray or True)):
            return "subclass(%s!=%s)" % (type(got).__name__, type(orig).__name__)
        if type(orig) not in (np.ndarray, np.memmap) and type(got) is not type(orig):
            return "subclass(%s!=%s)" % (type(got).__name__, type(orig).__name__)
    # order: F-contiguous (and not C) inputs come back F-contiguous, everything else C-contiguous
    if orig.ndim >= 2 and orig.size > 1 and min(orig.shape) > 1:
        if orig.flags.f_contiguous and not orig.flags.c_contiguous:
            if not got.flags.f_contiguous:
                return "order(F-lost)"
        elif orig.flags.c_contiguous and not got.flags.c_contiguous:
            return "order(C-lost)"
    if orig.dtype == np.dtype(object):
        ok = all(type(x) is type(y) and x == y for x, y in zip(np.asarray(orig).ravel().tolist(), np.asarray(got).ravel().tolist()))
        return None if ok else "values"
    a = np.asarray(orig)
    b = np.asarray(got)
    if byteorder_strict or a.dtype == b.dtype:
        if a.dtype.fields and a.dtype.isalignedstruct:
            ok = all(np.asarray(a[f]).tobytes() == np.asarray(b[f]).tobytes() for f in a.dtype.names)
        else:
            ok = a.tobytes(order="C") == b.tobytes(order="C")
    else:
        # byte order normalised by the default load: compare values field by field / elementwise
        ok = a.astype(a.dtype.newbyteorder("=")).tobytes(order="C") == b.astype(b.dtype.newbyteorder("=")).tobytes(order="C")
    return None if ok else "values"


COMPRESS = [False, True, ("gzip", 3), ("bz2", 1), ("xz", 1), ("lzma", 1), 9]


def _work(item):
    tier, combos = item
    import joblib
    import warnings
    warnings.simplefilter("ignore")
    np = np_()
    d = core.scratch_dir("c19-%d" % os.getpid())
    n = 0
    viols = {}

    def bad(sig, msg, rp):
        if sig not in viols:
            viols[sig] = [sig, msg, rp]

    for dname, shape, layout, subclass in combos:
        a = build_array(dname, shape, layout, subclass, d)
        if a is None:
            continue
        rp0 = {"dtype": dname, "shape": list(shape), "layout": layout, "subclass": subclass}
        desc = "dtype %s shape %s layout %s subclass %s" % (dname, shape, layout, subclass)
        bigendian = dname in (">i4", ">f8", "struct-bigendian")
        cclass = "%s|%s|%s" % ("big-endian" if bigendian else "object" if dname == "object" else "struct" if dname.startswith("struct") else "plain",
                               layout, subclass)
        # 1. round trip alone, every compressor (BytesIO) + path
        copts = COMPRESS if tier != "quick" else (COMPRESS[:3] if (hash((dname, shape, layout)) % 3) else COMPRESS[3:])
        for comp in copts:
            for proto in ((None, 2) if tier != "quick" else (None,)):
                n += 1
                try:
                  with core.time_limit(60):
                    b = io.BytesIO()
                    joblib.dump(a, b, compress=comp, protocol=proto)
                    got = joblib.load(io.BytesIO(b.getvalue()))
                    why = same_array(np, a, got, byteorder_strict=False)
                    if why is None and bigendian and subclass != "user":
                        got2 = joblib.load(io.BytesIO(b.getvalue()), ensure_native_byte_order=False)
                        why = same_array(np, a, got2, byteorder_strict=True)
                        if why:
                            why = "strict-" + why
                except core.Watchdog as e:
                    why = "no-termination"
                    got = e
                except Exception as e:  # noqa
                    why = "raises:%s" % type(e).__name__
                    got = e
                if why and why.startswith("subclass("):
                    bad("subclass-lost|%s" % subclass, "%s, compress=%r protocol=%r: loaded as %s" % (desc, comp, proto, type(got).__name__),
                        dict(rp0, compress=list(comp) if isinstance(comp, tuple) else comp, protocol=proto))
                elif why:
                    bad("roundtrip|%s|%s" % (why, cclass), "%s, compress=%r protocol=%r: %s (got %r)" % (desc, comp, proto, why, got if not hasattr(got, 'dtype') else (type(got).__name__, got.dtype, got.shape)),
                        dict(rp0, compress=list(comp) if isinstance(comp, tuple) else comp, protocol=proto))
        # 2. nested with varying alignment padding, shared reference
        for pad in (range(16) if (tier != "quick" or hash((dname, layout)) % 4 == 0) else (0, 1, 15)):
            n += 1
            second = a.copy(order="K") if dname != "object" and layout != "broadcast" else a
            obj = {"pre": b"x" * pad, "arr": a, "again": a, "list": [second, "tail"]}
            p = os.path.join(d, "nested.pkl")
            try:
                joblib.dump(obj, p)
                got = joblib.load(p)
                why = same_array(np, a, got["arr"], check_subclass=False, byteorder_strict=False) or \
                    same_array(np, a, got["again"], check_subclass=False, byteorder_strict=False) or \
                    same_array(np, second, got["list"][0], check_subclass=False, byteorder_strict=False)
                if why is None and got["pre"] != b"x" * pad:
                    why = "neighbour-corrupted"
            except Exception as e:  # noqa
                why = "raises:%s" % type(e).__name__
            if why:
                bad("nested|%s|%s" % (why, cclass), "%s nested after %d bytes: %s" % (desc, pad, why), dict(rp0, pad=pad))
            # 3. mmap modes on the same uncompressed file
            if why is None and dname != "object" and subclass != "user":
                for mode in ("r", "r+", "c", "w+"):
                    n += 1
                    try:
                        got = joblib.load(p, mmap_mode=mode)
                        m = got["arr"]
                        why2 = None
                        if a.size and not isinstance(m, np.memmap):
                            why2 = "not-a-memmap(%s)" % type(m).__name__
                        elif same_array(np, a, m, check_subclass=False, byteorder_strict=True):
                            why2 = "mmap-" + same_array(np, a, m, check_subclass=False, byteorder_strict=True)
                        elif a.size and m.ctypes.data % 16 != 0:
                            why2 = "misaligned(%d)" % (m.ctypes.data % 16)
                        elif a.size and not (0 < m.offset < os.path.getsize(p)):
                            why2 = "offset-outside-file"
                        if why2 is None and a.size and mode in ("r+", "w+", "c") and a.dtype.kind in "iuf" and not a.dtype.fields:
                            before = open(p, "rb").read()
                            first = (0,) * m.ndim
                            old = m[first].copy()
                            m[first] = old + 1
                            m.flush()
                            after = open(p, "rb").read()
                            changed = before != after
                            if mode == "c" and changed:
                                why2 = "copy-on-write-reached-file"
                            if mode in ("r+", "w+") and not changed:
                                why2 = "write-did-not-reach-file"
                            if mode in ("r+", "w+"):
                                m[first] = old
                                m.flush()
                        del got, m
                    except Exception as e:  # noqa
                        why2 = "raises:%s" % type(e).__name__
                    if why2:
                        bad("mmap|%s|mode=%s|%s" % (why2, mode, cclass), "%s nested after %d bytes, mmap_mode=%r: %s" % (desc, pad, mode, why2), dict(rp0, pad=pad, mode=mode))
    shutil.rmtree(d, ignore_errors=True)
    return {"n": n, "viol": list(viols.values())}


# -- worker memmapping -------------------------------------------------------------------------

def worker_scenario(arg):
    """Runs inside an isolated session: arrays passed to loky workers around the max_nbytes threshold."""
    import joblib
    import warnings
    warnings.simplefilter("ignore")
    np = np_()
    from ..c19_tasks import describe, content
    out = []
    d = core.scratch_dir("c19w")
    for dname, shape, layout in arg["arrays"]:
        a = build_array(dname, tuple(shape), layout, "ndarray", d)
        if a is None:
            continue
        nbytes = a.nbytes
        for mx, mm in [(m, "r") for m in (nbytes - 1, nbytes, nbytes + 1, None, "1K")] + [(nbytes - 1, m) for m in ("c", "r+", "w+")]:
            if isinstance(mx, int) and mx <= 0:
                continue
            # (mmap_mode 'w+' is documented to be coerced to 'r+' so that the data is not zeroed in the worker)
            try:
                res = joblib.Parallel(n_jobs=2, max_nbytes=mx, mmap_mode=mm, backend="loky")(joblib.delayed(describe)(a, i) for i in range(2))
            except Exception as e:  # noqa  (a worker that dies on the array, an un-serialisable argument, ...)
                out.append({"dtype": dname, "shape": list(shape), "layout": layout, "max_nbytes": mx, "mmap_mode": mm, "ok": False,
                            "type": "call raised %s: %s" % (type(e).__name__, str(e)[:120]), "expect_memmap": False, "is_memmap": False, "nbytes": nbytes})
                continue
            for r in res:
                ok = (r["dtype"] == str(a.dtype) and tuple(r["shape"]) == a.shape and r["bytes"] == content(a))
                limit = None if mx is None else (1024 if mx == "1K" else mx)
                expect_mm = limit is not None and nbytes > limit and a.dtype != np.dtype(object)
                out.append({"dtype": dname, "shape": list(shape), "layout": layout, "max_nbytes": mx, "mmap_mode": mm, "ok": ok, "type": r["type"],
                            "expect_memmap": expect_mm, "is_memmap": r["type"] == "memmap", "nbytes": nbytes})
    return {"records": out, "pids": [os.getpid()]}


def run_session(arg, timeout=240):
    d = core.scratch_dir("c19s-%d" % os.getpid())
    out_path = os.path.join(d, "result.json")
    env = dict(os.environ)
    env.pop("PYTHONDONTWRITEBYTECODE", None)
    env["PYTHONPYCACHEPREFIX"] = "/dev/shm/vf-pycache"
    env["PYTHONPATH"] = "%s:%s" % (core.REPO, core.ROOT)
    env["JOBLIB_TEMP_FOLDER"] = d
    log = open(os.path.join(d, "out.txt"), "wb")
    proc = subprocess.Popen([sys.executable, "-m", "vf.checks.c19", json.dumps(arg), out_path], stdin=subprocess.DEVNULL, stdout=log,
                            stderr=log, env=env, cwd=core.ROOT, start_new_session=True)
    try:
        proc.wait(timeout=timeout)
        timed_out = False
    except subprocess.TimeoutExpired:
        timed_out = True
    try:
        os.killpg(proc.pid, signal.SIGKILL)
    except OSError:
        pass
    try:
        proc.wait(10)
    except Exception:  # noqa
        pass
    log.close()
    res = None
    try:
        res = json.load(open(out_path))
    except (OSError, ValueError):
        pass
    tail = open(os.path.join(d, "out.txt"), "rb").read()[-500:].decode("utf-8", "replace")
    from .c10 import _cleanup_shm
    _cleanup_shm({proc.pid} | set((res or {}).get("pids", [])))
    shutil.rmtree(d, ignore_errors=True)
    return res, timed_out, tail


def run(ctx):
    quick = ctx.tier == "quick"
    os.makedirs("/dev/shm/vf-pycache", exist_ok=True)
    combos = []
    for dname, shape, layout in itertools.product(DTYPES, SHAPES, LAYOUTS):
        for sub in SUBCLASSES:
            if sub != "ndarray" and (layout not in ("C", "F", "strided") or dname not in ("<f8", ">i4", "struct-packed", "object", "U2")):
                continue
            combos.append((dname, shape, layout, sub))
    if quick:
        from ..parcommon import rotate_slice
        must = [c for c in combos if c[1] in ((2, 3), (3,), ()) and c[3] == "ndarray"]
        rest = [c for c in combos if c not in must]
        combos = must + rotate_slice(rest, ctx.seed, 3)
    chunks = [combos[i::48] for i in range(48)]
    n = 0
    for res in core.pmap(_work, [(ctx.tier, c) for c in chunks if c]):
        n += res["n"]
        for v in res["viol"]:
            ctx.violation(*v)
    # worker memmapping
    arrays = [("<f8", [40], "C"), ("<f8", [8, 5], "F"), ("<i4", [50], "strided"), (">i4", [30], "C"), ("struct-packed", [12], "C"),
              # arrays backed by a memmap of the user: forwarded by file name + offset + strides, never copied
              ("<f8", [30], "memmap-slice"), ("<f8", [4, 6], "memmap-T"), ("<f8", [4, 6], "memmap-negstride"),
              ("<i4", [4, 6], "memmap-colrev"), ("<f8", [4, 6], "memmap-strided"),
              ("object", [6], "C"), ("U2", [40], "C")]
    if quick:
        arrays = arrays[:10]
    res, timed_out, tail = run_session({"arrays": arrays})
    nw = 0
    if res is None or timed_out or "error" in res:
        ctx.violation("worker-memmap|scenario-failed", "worker memmapping scenario failed: %s" % ((res or {}).get("error") if res else ("timeout" if timed_out else tail)), {"part": "workers"})
    else:
        for r in res["records"]:
            nw += 1
            if not r["ok"]:
                ctx.violation("worker-memmap|wrong-content|%s" % r["layout"], "array %r passed with max_nbytes=%r mmap_mode=%r arrived different in the worker (%s)" % (
                    (r["dtype"], r["shape"], r["layout"]), r["max_nbytes"], r.get("mmap_mode"), r["type"]), {"part": "workers", "record": r})
            elif r["layout"].startswith("memmap"):
                pass        # backed by the user's own memmap: forwarded by reference whatever max_nbytes says; only content is judged
            elif r["expect_memmap"] and not r["is_memmap"]:
                ctx.violation("worker-memmap|not-memmapped", "array of %d bytes with max_nbytes=%r was not memory-mapped in the worker" % (r["nbytes"], r["max_nbytes"]), {"part": "workers", "record": r})
            elif r["is_memmap"] and not r["expect_memmap"] and r["layout"] != "memmap-slice":
                ctx.violation("worker-memmap|memmapped-below-threshold", "array of %d bytes with max_nbytes=%r was memory-mapped" % (r["nbytes"], r["max_nbytes"]), {"part": "workers", "record": r})
    ctx.rule = ("dtype in %s x shape in %s x layout in %s (combinations that exist) x subclass {ndarray; matrix / user subclass on a subset} "
                "-> dump/load alone under %s (BytesIO), nested in a dict after 0..15 bytes (alignment padding) with a shared reference, "
                "then mmap_mode in {r, r+, c, w+} on that file (type, content, 16-byte alignment, offset, write-through / copy-on-write); "
                "quick = shapes (), (3,), (2,3) fully + a seed-rotated third of the rest. Plus %d worker-side observations of arrays "
                "passed to loky workers with max_nbytes around the array size." % (DTYPES, SHAPES, LAYOUTS, COMPRESS, nw))
    ctx.exhaustive = True
    ctx.sample({"dtype": "struct-aligned", "shape": [2, 3], "layout": "F", "subclass": "ndarray", "compress": ["gzip", 3]})
    ctx.sample({"dtype": ">i4", "shape": [3], "layout": "memmap-slice", "pad": 7, "mode": "r+"})
    ctx.assumptions += ["default load normalises byte order to native (documented ensure_native_byte_order='auto'): values are compared, and the identical big-endian dtype is required with ensure_native_byte_order=False",
                        "numpy %s from the offline wheelhouse; joblib imported from /repo" % np_().__version__,
                        "padding bytes of aligned structs are not compared (fields are)"]
    return {"evaluations": n + nw, "distinct_nontrivial": n + nw, "array_combinations": len(combos), "worker_observations": nw}


def replay(data):
    print(data)
    if "dtype" in data and "layout" in data and "part" not in data:
        res = _work(("thorough", [(data["dtype"], tuple(data["shape"]), data["layout"], data["subclass"])]))
        for v in res["viol"]:
            print(v[0], v[1])
        if res["viol"]:
            print("VIOLATION property=C19 replay=<this file>")
            return 1
        return 0
    return 1


if __name__ == "__main__":
    arg, out_path = json.loads(sys.argv[1]), sys.argv[2]
    try:
        res = worker_scenario(arg)
    except BaseException as e:  # noqa
        import traceback
        res = {"error": "%s: %s\n%s" % (type(e).__name__, e, traceback.format_exc()[-800:])}
    with open(out_path + ".tmp", "w") as f:
        json.dump(res, f, default=repr)
    os.replace(out_path + ".tmp", out_path)
