"""C11 - concurrent users of one cache directory always get correct values.

Stateless model checking at file-system-call granularity: 2-3 actors (real threads under the
baton scheduler of vf.pysched) run call / reduce_size / clear workloads on one cache directory;
every intercepted file-system call (vf.fsmon) is a scheduling point; all interleavings up to
the pre-emption bound, both directory-listing orders, two process models (threads sharing the
cached function object, or 'processes': each actor has its own function object, Memory object
and entry in the in-memory function table) and three initial directory states are explored.
"""

import importlib.util
import itertools
import os
import shutil
import sys
import types

from .. import core, fsmon, parcommon as PC, pysched

LEVEL = "model_checking"

OPS = ("call1", "call1b", "call2", "reduce_items", "reduce_bytes", "clear", "call1_changed", "call1_z", "shelve1", "codecheck")
# codecheck = only the first step of a cached call (MemorizedFunc._check_previous_func_code: read / compare / wipe / store
# the function's source): the narrow seam that lets three concurrent first users be explored at PB 3
INITS = ("empty", "f1", "f1+f2")


def fval(version, x):
    return ("v%d" % version, x, "y" * 30)


def write_mod(d, version):
    os.makedirs(d, exist_ok=True)
    p = os.path.join(d, "vf_c11_mod_v%d.py" % version)
    # both versions live in files of their own but define the same module-qualified function name
    with open(p, "w") as f:
        f.write("def f(x):\n    return ('v%d', x, 'y' * 30)\n" % version)
    return p


def load_mod(path, tag):
    spec = importlib.util.spec_from_file_location("vf_c11_mod", path)
    mod = importlib.util.module_from_spec(spec)
    spec.loader.exec_module(mod)
    return mod


class Execution:
    pass


_TEMPLATES = {}
_BASE = None


def template(base, init, mods):
    """Cache directory in the given initial state (built once per worker process, copied per execution)."""
    key = (base, init)
    if key in _TEMPLATES:
        return _TEMPLATES[key]
    import joblib
    import joblib.memory as M
    d = os.path.join(base, "tpl-" + init.replace("+", "_"))
    shutil.rmtree(d, ignore_errors=True)
    mem = joblib.Memory(d, verbose=0)
    mod = load_mod(os.path.join(mods, "vf_c11_mod_v1.py"), "tpl")
    cf = mem.cache(mod.f)
    if init in ("f1", "f1+f2"):
        cf(1)
    if init == "f1+f2":
        cf(2)
    M._FUNCTION_HASHES.clear()
    _TEMPLATES[key] = d
    return d


def run_once(cfg, choices=(), expect=None, record_states=True):
    """One controlled execution of cfg on a fresh copy of the initial directory."""
    import joblib
    import joblib.disk as JD
    import joblib.memory as M
    base = cfg["base"]
    mods = os.path.join(base, "mods")
    work = os.path.join(base, "work")
    fsmon.set_dir_order(None)
    shutil.rmtree(work, ignore_errors=True)
    shutil.copytree(template(base, cfg["init"], mods), work)
    M._FUNCTION_HASHES.clear()
    # caches that would make a replayed prefix issue fewer file-system calls than its parent execution
    import inspect
    import linecache
    linecache.clearcache()
    inspect.modulesbyfile.clear()
    inspect._filesbymodname.clear()
    s = pysched.Sched(choices, expect, horizon=cfg.get("horizon", 20000), record_states=record_states)
    results = {}
    shared = {}
    if cfg["model"] == "threads":
        mod = load_mod(os.path.join(mods, "vf_c11_mod_v1.py"), "shared")
        shared["mem"] = joblib.Memory(work, verbose=0)
        shared["cf"] = shared["mem"].cache(mod.f)
    # modules are imported here, outside the controlled execution: the import system holds real locks
    premod = {}
    for i, op in enumerate(cfg["actors"]):
        version = 2 if op == "call1_changed" else 1
        premod["A%d:%s" % (i, op)] = load_mod(os.path.join(mods, "vf_c11_mod_v%d.py" % version), str(i))

    def make_body(name, op):
        def body():
            try:
                if cfg["model"] == "threads" and op not in ("call1_changed", "call1_z"):
                    mem, cf = shared["mem"], shared["cf"]
                else:
                    mod = premod[name]
                    mem = joblib.Memory(work, verbose=0, compress=(op == "call1_z"))
                    cf = mem.cache(mod.f)
                if op == "shelve1":
                    v = cf.call_and_shelve(1).get()
                    results[name] = ("ok", v == fval(1, 1), v)
                elif op in ("call1", "call1b", "call1_changed", "call1_z"):
                    v = cf(1)
                    want = fval(2 if op == "call1_changed" else 1, 1)
                    results[name] = ("ok", v == want, v)
                elif op == "call2":
                    v = cf(2)
                    results[name] = ("ok", v == fval(1, 2), v)
                elif op == "reduce_items":
                    mem.reduce_size(items_limit=0)
                    results[name] = ("ok", True, None)
                elif op == "reduce_bytes":
                    mem.reduce_size(bytes_limit=100)
                    results[name] = ("ok", True, None)
                elif op == "clear":
                    mem.clear(warn=False)
                    results[name] = ("ok", True, None)
                elif op == "codecheck":
                    cf._check_previous_func_code(stacklevel=4)
                    results[name] = ("ok", True, None)
            except pysched.Abort:
                raise
            except BaseException as e:  # noqa
                import traceback
                tb = traceback.extract_tb(e.__traceback__)
                where = [fr for fr in tb if "/joblib/" in fr.filename]
                loc = "%s:%s" % (os.path.basename(where[-1].filename), where[-1].name) if where else "?"
                results[name] = ("exc", type(e).__name__, str(e)[:160].replace(work, "<cache>"), loc)
        return body

    actors = []
    for i, op in enumerate(cfg["actors"]):
        nm = "A%d:%s" % (i, op)
        actors.append(s.add_actor(nm, make_body(nm, op)))

    def handler(name, target):
        a = pysched.current_actor()
        if a is None:
            return
        a.pos = (name, 0)
        s.point(a, None)

    clock = pysched.VClock(s, has_deadline=lambda: True, max_lone=50)
    old_time = JD.time
    JD.time = types.SimpleNamespace(sleep=clock.sleep, time=clock.time)
    fsmon.set_dir_order(cfg["order"])
    s.state_fn = None
    import gc
    gc_was = gc.isenabled()
    gc.disable()
    fsmon.start(handler)
    try:
        s.run()
    finally:
        fsmon.stop()
        JD.time = old_time
        fsmon.set_dir_order(None)
        if gc_was:
            gc.enable()
    x = Execution()
    x.sched = s
    x.decisions = s.decisions
    x.verdict = s.abort or "ok"
    x.results = results
    # quiescent check: every output.pkl present loads to the correct value of its entry
    x.files = []
    if x.verdict == "ok":
        for dp, _dn, fn in os.walk(work):
            if "output.pkl" in fn:
                p = os.path.join(dp, "output.pkl")
                try:
                    v = joblib.load(p)
                    good = isinstance(v, tuple) and len(v) == 3 and v[0] in ("v1", "v2") and v[1] in (1, 2) and v[2] == "y" * 30
                    x.files.append((os.path.relpath(p, work), "ok" if good else "garbage:%r" % (v,)))
                except Exception as e:  # noqa
                    x.files.append((os.path.relpath(p, work), "unloadable:%s" % type(e).__name__))
            for f in fn:
                if ".thread-" in f:
                    x.files.append((f.split(".thread-")[0], "temporary-left-behind"))
    return x


def judge(cfg, x):
    bad = []
    if x.verdict in ("deadlock", "hang"):
        return [("%s" % x.verdict, "actors %r never finish (%s)" % (cfg["actors"], x.verdict))]
    for name, r in sorted(x.results.items()):
        op = name.split(":")[1]
        others = sorted(o for n, o in ((n, n.split(":")[1]) for n in x.results) if n != name)
        if r[0] == "exc":
            kind = "call" if op.startswith("call") else op
            bad.append(("raises:%s@%s|%s|while:%s" % (r[1], r[3], kind, "+".join(_coarse(o) for o in others)),
                        "%s raised %s: %s (in %s) while %r ran concurrently" % (name, r[1], r[2], r[3], others)))
        elif not r[1]:
            bad.append(("wrong-value|%s|while:%s" % (op, "+".join(_coarse(o) for o in others)),
                        "%s returned %r while %r ran concurrently" % (name, r[2], others)))
    for rel, st in x.files:
        if st == "temporary-left-behind":
            continue
        if st != "ok":
            bad.append(("result-file-%s" % st.split(":")[0], "after quiescence %s is %s" % (rel, st)))
    for name in [n for n in ("A%d:%s" % (i, o) for i, o in enumerate(cfg["actors"])) if n not in x.results]:
        bad.append(("actor-no-result", "%s produced no result" % name))
    return bad


def _coarse(op):
    if op == "call1_changed":
        return "call-changed-source"      # its first step wipes the function's directory, like a clear()
    return "call" if op.startswith("call") else op


def _work(unit):
    (c, bounds, max_execs), shard = unit
    import joblib  # noqa
    import logging
    import warnings
    logging.disable(logging.CRITICAL)
    warnings.simplefilter("ignore")
    global _BASE
    if _BASE is None or _BASE[0] != os.getpid():
        _BASE = (os.getpid(), core.scratch_dir("c11-%d" % os.getpid()))
        _TEMPLATES.clear()
    base = _BASE[1]
    mods = os.path.join(base, "mods")
    if not os.path.exists(mods):
        write_mod(mods, 1)
        write_mod(mods, 2)
    cfg = dict(c, base=base)
    st = PC.ExploreStats()

    def run(choices, expect):
        return run_once(cfg, choices, expect, record_states=(st.execs % 8 == 0))

    def on_exec(x, prefix):
        st.execs += 1
        s = x.sched
        st.points += s.npoints
        if s.fps:
            st.fps |= s.fps
            st.edges |= s.edges
        st.verdicts[x.verdict] += 1
        if x.verdict == "divergence":
            return
        if x.verdict == "horizon":
            if "horizon" not in st.caps:
                st.caps.append("horizon")
            return
        st.outcomes[repr((x.verdict, sorted((n, r[:2]) for n, r in x.results.items())))] += 1
        for sig, msg in judge(cfg, x):
            ch = [d.chosen for d in x.decisions]
            while ch and ch[-1] == 0:
                ch.pop()
            st.add_violation(sig, msg, {"cfg": c, "choices": ch, "switches": PC.describe_switches(s)})

    ex = pysched.Explorer(run, PC.make_allowed(*bounds), on_exec, max_execs=max_execs, shard=shard)
    ex.explore()
    if ex.capped:
        st.caps.append("max_execs=%s" % max_execs)
    st.max_decisions = ex.max_decisions
    res = st.result()
    res["shard_nonzero"] = bool(shard and shard[0])
    res["sample"] = {"config": c, "bounds(pb,eb,ob)": list(bounds), "executions": st.execs, "max_decision_points": st.max_decisions,
                     "distinct_outcomes": len(st.outcomes)}
    return res


def plan(ctx):
    quick = ctx.tier == "quick"
    items = []
    pairs = []
    ops = [o for o in OPS if o not in ("call1_changed", "call1_z", "shelve1", "codecheck")]
    for a, b in itertools.combinations_with_replacement(ops, 2):
        if a.startswith("reduce") and b.startswith("reduce") or (a, b) == ("clear", "clear"):
            continue
        pairs.append((a, b))
    pairs += [("call1_changed", "reduce_items"), ("call1_changed", "clear"), ("call1_changed", "call2")]
    # two writers of ONE entry with different encodings (a mixture would be unloadable); a shelved read next to a writer
    pairs += [("call1", "call1_z"), ("call1_z", "call1_z"), ("shelve1", "call1"), ("shelve1", "call1_z"), ("shelve1", "shelve1")]
    triples = [("call1", "call1b", "clear"), ("call1", "call2", "reduce_items"), ("call1", "clear", "reduce_items")]
    for actors in pairs:
        for init in INITS:
            for order in ("asc", "desc"):
                for model in ("threads", "processes"):
                    c = dict(actors=list(actors), init=init, order=order, model=model)
                    items.append((c, (2, 0, 0) if quick else (3, 0, 0), 300000))
    # three users meeting on a function nobody has cached yet (the first step of their calls), private Memory objects
    for order in ("asc",) if quick else ("asc", "desc"):
        c = dict(actors=["codecheck", "codecheck", "codecheck"], init="empty", order=order, model="processes")
        items.append((c, (3, 0, 0), 2000000))
    items.append((dict(actors=["codecheck", "codecheck", "call1"], init="empty", order="asc", model="processes"), (2, 0, 0) if quick else (3, 0, 0), 2000000))
    if not quick:
        for actors in triples:
            for init in ("f1", "f1+f2"):
                for order in ("asc", "desc"):
                    c = dict(actors=list(actors), init=init, order=order, model="processes")
                    items.append((c, (2, 0, 0), 400000))
    if quick:
        sel = PC.rotate_slice(items, ctx.seed, 3)
        sel_keys = {PC.cfg_key(i[0]) for i in sel}
        # every other configuration at one pre-emption
        items = sel + [(c, (1, 0, 0) if "codecheck" not in c["actors"] else b, m) for (c, b, m) in items if PC.cfg_key(c) not in sel_keys]
    else:
        # PB 3 on a VERIF_SEED-rotated third of the pair configurations (and on the codecheck ones), PB 2 on all the others:
        # PB 3 everywhere is several hours of exploration
        pair_items = [it for it in items if len(it[0]["actors"]) == 2]
        sel_keys = {PC.cfg_key(i[0]) for i in PC.rotate_slice(pair_items, ctx.seed, 3)}
        items = [(c, b if (PC.cfg_key(c) in sel_keys or "codecheck" in c["actors"]) else (2, 0, 0), m) for (c, b, m) in items]
    return PC.shard_items(items, lambda it: it[1][0] * len(it[0]["actors"]), 6, nshards=6)


def run(ctx):
    items = plan(ctx)
    tot, outcomes, verdicts = PC.run_items(ctx, items, _work, sample_every=max(1, len(items) // 4), maxtasks=3)
    ctx.rule = ("actor multisets over %s (pairs; thorough also triples) x initial directory %s x directory order {asc, desc} x "
                "{threads sharing the cached function, 'processes' with private function / Memory objects}; every interleaving at "
                "file-system-call granularity with <= PB pre-emptions (bounds in samples); quick = a VERIF_SEED-rotated third at PB 2, "
                "all the others at PB 1; thorough = PB 3 on a rotated third of the pairs, PB 2 on the other pairs and on the triples; three first users of one function (codecheck x 3: only the source-check step of a call) at PB 3 in both tiers. distinct_nontrivial = distinct outcome vectors" % (list(OPS), list(INITS)))
    ctx.exhaustive = True
    ctx.assumptions += ["scheduling points = C-level file-system entry points seen through sys.monitoring CALL events; code between two of them runs atomically",
                        "the 'processes' model runs actors as threads with private function, Memory and function-table entries; genuinely per-process state (pid in temporary names) is shared",
                        "joblib.disk's retry sleeps are yields of the virtual clock"]
    return {"states": tot["states"], "transitions": tot["transitions"], "traces_validated_against_impl": tot["execs"],
            "evaluations": tot["execs"], "distinct_nontrivial": len(outcomes), "configurations": tot["configs"],
            "scheduling_points_executed": tot["points"], "verdicts": dict(verdicts)}


def replay(data):
    import joblib  # noqa
    base = core.scratch_dir("c11r")
    mods = os.path.join(base, "mods")
    write_mod(mods, 1)
    write_mod(mods, 2)
    cfg = dict(data["cfg"], base=base)
    x1 = run_once(cfg, data["choices"])
    x2 = run_once(cfg, data["choices"])
    b1, b2 = judge(cfg, x1), judge(cfg, x2)
    print("results:", x1.results, "files:", x1.files)
    for line in PC.describe_switches(x1.sched):
        print("  ", line)
    if [b[0] for b in b1] != [b[0] for b in b2]:
        print("HARNESS-ERROR: replay is not deterministic")
        return 2
    for sig, msg in b1:
        print(sig, msg)
    if b1:
        print("VIOLATION property=C11 replay=<this file>")
        return 1
    return 0
