"""C01 - Parallel(...)(tasks) == sequential loop, in order, each task once.

Model checking on the implementation: the real Parallel object is driven through a
virtual backend under the deviation-bounded thread scheduler (vf.pysched); all
completion orders (bounded number of non-FIFO picks for larger N), all
interleavings of the caller with the completion-callback thread up to the
pre-emption bound, batch-duration answers for batch_size='auto', and loky-style
inline completion at submit are enumerated.
"""

import itertools

from .. import core, parcommon as PC

LEVEL = "model_checking"


def all_configs(max_n):
    out = []
    for nj, bs, pre, ra, n, inp, order in itertools.product(
            PC.N_JOBS, PC.BATCH, PC.PRE, ("list", "generator"), range(0, max_n + 1), ("gen", "list"),
            ("free", "fifo")):
        out.append(dict(n_jobs=nj, batch_size=bs, pre_dispatch=pre, return_as=ra, n=n, input=inp, order=order))
    return out


def to_scenario(c, inline=False):
    prog = [("call", {"n": c["n"], "input": c["input"]})]
    if c["return_as"] != "list":
        prog.append(("exhaust", 1))
    cfg = dict(n_jobs=c["n_jobs"], batch_size=c["batch_size"], pre_dispatch=c["pre_dispatch"],
               return_as=c["return_as"], order=c["order"], program=prog)
    if inline:
        cfg["inline"] = True
    return cfg


def judge(cfg, obs):
    bad = []
    n = cfg["program"][0][1]["n"]
    want = [("r", 1, i) for i in range(n)]
    ra = cfg["return_as"]
    if obs.verdict in ("deadlock", "hang"):
        return [("%s|%s" % (obs.verdict, ra), "the call never terminates (%s verdict of the scheduler): steps %r" % (obs.verdict, [PC._step_view(r) for r in obs.steps]))]
    for r in obs.steps:
        if "exc" in r:
            return [("exception:%s|%s" % (r["exc"][0], ra), "step %s raised %s%r" % (r["kind"], r["exc"][0], r["exc"][1]))]
    got = obs.steps[0].get("result") if ra == "list" else (obs.steps[1].get("got") if len(obs.steps) > 1 else None)
    log = sorted(obs.env.exec_log)
    exp_log = [(1, i) for i in range(n)]
    if log != exp_log:
        miss = [i for i in range(n) if (1, i) not in log]
        dup = sorted({i for (_c, i) in log if log.count((1, i)) > 1})
        kind = "task-lost" if miss else "task-twice" if dup else "task-foreign"
        bad.append(("%s|%s" % (kind, ra), "tasks executed %r instead of each of 0..%d once (missing %r, repeated %r)" % (obs.env.exec_log, n - 1, miss, dup)))
    if got != want:
        if got is None:
            kind = "no-result"
        elif sorted(got) == sorted(want):
            kind = "wrong-order"
        elif len(got) < len(want):
            kind = "result-missing"
        elif len(got) > len(want):
            kind = "result-extra"
        else:
            kind = "wrong-value"
        bad.append(("%s|%s" % (kind, ra), "returned %r instead of %r" % (got, want)))
    p = obs.env.parallel
    if getattr(p, "_running", False):
        bad.append(("still-running|%s" % ra, "Parallel._running is still True after the call ended"))
    return bad


def _work(unit):
    (c, bounds, inline, max_execs), shard = unit
    cfg = to_scenario(c, inline)
    st = PC.explore_config(cfg, bounds, judge, max_execs=max_execs, shard=shard)
    res = st.result()
    res["shard_nonzero"] = bool(shard and shard[0])
    res["sample"] = {"config": c, "inline": inline, "bounds(pb,eb,ob,joint)": list(bounds), "executions": st.execs,
                     "max_decision_points": st.max_decisions, "distinct_outcomes": len(st.outcomes)}
    return res


def plan(ctx):
    quick = ctx.tier == "quick"
    items = []
    if quick:
        configs = all_configs(4)
        conc = [c for c in configs if c["n"] >= 1]
        fields = ["n_jobs", "batch_size", "pre_dispatch", "return_as", "n", "input", "order"]
        cover, rest = PC.pairwise_cover(conc, fields)
        extra = PC.rotate_slice(rest, ctx.seed, 24)
        for c in cover + extra:
            items.append((c, (1, 1, 2, 2), False, 20000))
        # loky-style inline completion on a few shapes
        for c in cover[:12]:
            items.append((c, (1, 1, 1, 2), True, 20000))
        for c in [c for c in configs if c["n"] == 0][::7]:
            items.append((c, (1, 1, 1, 2), False, 2000))
        # a few long inputs (beyond every look-ahead / batch boundary) at a small bound
        big = [c for c in all_configs(7) if c["n"] in (6, 7) and c["input"] == "gen" and c["order"] == "free"]
        for c in PC.rotate_slice(big, ctx.seed, 4):
            items.append((c, (0, 0, 1, 1), False, 5000))
        for c in PC.rotate_slice(big, ctx.seed + 1, 16):
            items.append((c, (1, 0, 0, 1), False, 5000))
        # batch_size='auto' needs several completed batches before the heuristic moves: longer inputs, one
        # deviating batch duration (grow ... then one slow / one fast batch), no pre-emption
        auto = [c for c in all_configs(8) if c["batch_size"] == "auto" and c["n"] == 8 and c["input"] == "gen"
                and c["order"] == "fifo" and c["pre_dispatch"] in (1, "n_jobs", "2*n_jobs")]
        for c in auto:
            items.append((c, (0, 2, 0, 2), False, 20000))
    else:
        # every configuration with N <= 7 at the quick bounds; the pairwise-covering set of the N <= 4 configurations deeper
        configs = all_configs(7)
        for c in configs:
            if c["n"] <= 5:
                items.append((c, (1, 1, 2, 2), False, 200000))
            elif c["input"] == "gen":
                # long inputs: one deviation of each kind, generator input only (the list input differs in n_tasks bookkeeping only)
                items.append((c, (1, 0, 1, 1), False, 100000))
        fields = ["n_jobs", "batch_size", "pre_dispatch", "return_as", "n", "input", "order"]
        cover, _rest = PC.pairwise_cover([c for c in all_configs(4) if c["n"] >= 1], fields)
        for c in cover:
            items.append((c, (2, 1, 3, 3) if c["n"] <= 3 else (1, 1, 3, 2), False, 400000))
        for c in configs:
            if c["n"] in (2, 4) and c["order"] == "free" and c["input"] == "gen":
                items.append((c, (1, 1, 1, 2), True, 100000))
    # n_jobs == 1: sequential fast path, no concurrency, one execution each
    for bs, pre, ra, n, inp in itertools.product(PC.BATCH, PC.PRE, ("list", "generator"), (0, 1, 2, 5) if quick else range(0, 8), ("gen", "list")):
        items.append((dict(n_jobs=1, batch_size=bs, pre_dispatch=pre, return_as=ra, n=n, input=inp, order="fifo"),
                      (0, 0, 0, 0), False, 10))
    # costly items first for load balance
    items.sort(key=lambda it: -(it[0]["n"] * (3 if it[1][0] > 1 else 1)))
    return PC.shard_items(items, lambda it: it[0]["n"] * it[1][0] ** 2, 12 if quick else 4)


def run(ctx):
    items = plan(ctx)
    tot, outcomes, verdicts = PC.run_items(ctx, items, _work, sample_every=max(1, len(items) // 5))
    # conformance of the environment model: the same oracle on free-running executions of the shipped backends
    from .. import realpar
    real = realpar.run_real(ctx, realpar.programs_c01(ctx.tier), "C01", nchunks=5)
    ctx.sample({"real_backend_part": "threading / loky / multiprocessing x n_jobs 2,3 x batch_size 1,2,auto x pre_dispatch all,n_jobs,2*n_jobs,1 x "
                                     "return_as x N x flat/decreasing task durations; one OS-chosen schedule each", **real})
    ctx.rule = ("one Parallel call per configuration (n_jobs x batch_size x pre_dispatch x return_as x N x input kind x "
                "FIFO/free completion order [x inline completion]); for each, every schedule of caller vs completion "
                "callback thread with <= PB pre-emptions at source-line granularity, <= OB non-FIFO completion picks, "
                "<= EB environment deviations (batch duration for 'auto', inline completion); bounds per item are in "
                "samples. quick = pairwise-covering configuration set + a VERIF_SEED-rotated 1/24 of the rest (N<=4); "
                "thorough = every configuration with N<=5 at PB 1 with two order deviations, N=6,7 at PB 1 with one, + the pairwise-covering set at PB 2. distinct_nontrivial = distinct (verdict, results, execution "
                "order) outcomes observed")
    ctx.exhaustive = True
    ctx.assumptions += [
        "virtual backend over-approximates the callback behaviour of the threading/multiprocessing/loky backends (single callback thread, callback after completion, inline callback for an already finished future)",
        "pre-emption granularity is one source line of joblib.parallel; Parallel._lock is replaced by a cooperative re-entrant lock, joblib.parallel.time by a virtual clock",
        "state fingerprints are recorded on every 8th execution, for counting only (no pruning)",
        "real-backend part: configuration space exhaustive, schedules chosen by the OS (not enumerated); it binds the environment model to the shipped backends and is not counted in states/transitions",
    ]
    return {"states": tot["states"], "transitions": tot["transitions"],
            "traces_validated_against_impl": tot["execs"], "evaluations": tot["execs"],
            "distinct_nontrivial": len(outcomes), "configurations": tot["configs"],
            "scheduling_points_executed": tot["points"], "max_decision_points_in_one_execution": tot["max_decisions"],
            "verdicts": dict(verdicts), **real}


def replay(data):
    if data.get("part") == "real":
        from .. import realpar
        rc = realpar.replay_real(data)
        if rc:
            print("VIOLATION property=C01 replay=<this file>")
        return rc
    from .. import parharness as H
    cfg = data["cfg"]
    cfg["program"] = [tuple(s) for s in cfg["program"]]
    obs1 = H.run_scenario(cfg, data["choices"])
    obs2 = H.run_scenario(cfg, data["choices"])
    b1, b2 = judge(cfg, obs1), judge(cfg, obs2)
    print("replay verdict:", obs1.verdict, "steps:", [PC._step_view(r) for r in obs1.steps])
    for line in PC.describe_switches(obs1.sched):
        print("  ", line)
    if [x[0] for x in b1] != [x[0] for x in b2]:
        print("HARNESS-ERROR: replay is not deterministic")
        return 2
    for sig, msg in b1:
        print(sig, msg)
    if b1:
        print("VIOLATION property=C01 replay=<this file>")
        return 1
    return 0
