"""C05 - killing the process at any instant never corrupts the Memory cache.

Fault enumeration over crash points: each workload runs ONCE in a forked child under the
file-system seam (vf.fsmon); before every intercepted file-system call the cache directory
is snapshotted - snapshot k is exactly what a `kill -9` at that instant leaves behind.  Torn
writes are added by truncating files that grew between two consecutive snapshots; the
directory-listing order (ascending / descending) is an enumerated environment answer.
Every distinct crash state is recovered in fresh forked children on private copies.
"""

import hashlib
import importlib.util
import os
import shutil
import sys

from .. import core, fsmon

LEVEL = "fault_enumeration"

WORKLOADS = ("W1-cold", "W2-warm+new", "W3-source-changed", "W4-expired", "W5-shelve", "W6-compressed",
             "W7-reduce_size", "W8-clear", "W9-second-function")


def write_module(d, version):
    os.makedirs(d, exist_ok=True)
    p = os.path.join(d, "vf_c05_mod.py")
    with open(p, "w") as f:
        f.write("def f(a):\n    return ('v%d', a, 'x' * 40)\n\n\ndef g(a):\n    return ('g', a)\n" % version)
    return p


def load_module(p):
    spec = importlib.util.spec_from_file_location("vf_c05_mod", p)
    mod = importlib.util.module_from_spec(spec)
    sys.modules["vf_c05_mod"] = mod
    spec.loader.exec_module(mod)
    return mod


def fval(version, a):
    return ("v%d" % version, a, "x" * 40)


def tree_digest(root):
    h = hashlib.sha1()
    for dp, dn, fn in os.walk(root):
        dn.sort()
        rel = os.path.relpath(dp, root)
        h.update(("D:" + rel + "\n").encode())
        for x in sorted(fn):
            p = os.path.join(dp, x)
            h.update(("F:" + os.path.join(rel, x) + "\n").encode())
            try:
                with open(p, "rb") as f:
                    h.update(hashlib.sha1(f.read()).digest())
            except OSError:
                h.update(b"?")
    return h.hexdigest()


def file_sizes(root):
    out = {}
    for dp, _dn, fn in os.walk(root):
        for x in fn:
            p = os.path.join(dp, x)
            try:
                out[os.path.relpath(p, root)] = os.path.getsize(p)
            except OSError:
                pass
    return out


def _quiet():
    import logging
    import warnings
    logging.disable(logging.CRITICAL)
    warnings.simplefilter("ignore")


def run_workload(arg):
    """In a forked child: precondition (unmonitored), then the workload under the seam, snapshotting."""
    wl, base, order = arg[:3]
    mode = arg[3] if len(arg) > 3 else "snap"      # 'snap' (crash snapshots) | 'log' (seam log only) | 'bare' (no seam: strace witness)
    _quiet()
    import joblib
    import joblib.memory as M
    fsmon.set_dir_order(order)
    cache = os.path.join(base, "cache")
    snaps = os.path.join(base, "snaps")
    mods = os.path.join(base, "mods")
    os.makedirs(snaps)
    final_version = 1
    modp = write_module(mods, 1)
    mod = load_module(modp)
    kw = {}
    if wl == "W6-compressed":
        kw["compress"] = True
    mem = joblib.Memory(cache, verbose=0, **kw)
    # -- preconditions
    if wl in ("W2-warm+new", "W4-expired", "W7-reduce_size", "W8-clear", "W9-second-function"):
        cf = mem.cache(mod.f)
        cf(0)
        if wl in ("W7-reduce_size", "W8-clear"):
            cf(1)
            cf(2)
    if wl == "W3-source-changed":
        cf = mem.cache(mod.f)
        cf(0)
        cf(1)
        modp = write_module(mods, 2)
        mod = load_module(modp)
        final_version = 2
        M._FUNCTION_HASHES.clear()
        mem = joblib.Memory(cache, verbose=0)
    n = [0]
    log = []

    import json

    def take(dst):
        shutil.copytree(cache, dst)
        meta = {}
        for dp, _dn, fn in os.walk(cache):
            for x in fn:
                p = os.path.join(dp, x)
                try:
                    st = os.stat(p)
                    meta[os.path.relpath(p, cache)] = [st.st_ino, st.st_size]
                except OSError:
                    pass
        with open(dst + ".meta", "w") as f:
            json.dump(meta, f)

    seam_log = []

    def path_of(target):
        if isinstance(target, (str, bytes, os.PathLike)):
            return os.fsdecode(target)
        nm = getattr(target, "name", None)
        return os.fsdecode(nm) if isinstance(nm, (str, bytes)) else None

    def snap(name, target):
        log.append(name)
        if mode == "log":
            seam_log.append([name, path_of(target)])
            return
        dst = os.path.join(snaps, "%04d" % n[0])
        fsmon.set_dir_order(None)
        try:
            take(dst)
        finally:
            fsmon.set_dir_order(order)
        n[0] += 1

    # -- workload
    if mode == "bare":
        os.mkdir(os.path.join(base, "__BEGIN__"))      # delimiters in the system-call trace
    else:
        fsmon.start(snap)
    try:
        if wl == "W1-cold":
            mem.cache(mod.f)(0)
        elif wl == "W2-warm+new":
            cf = mem.cache(mod.f)
            cf(0)
            cf(1)
        elif wl == "W3-source-changed":
            mem.cache(mod.f)(0)
        elif wl == "W4-expired":
            from joblib import expires_after
            mem.cache(mod.f, cache_validation_callback=expires_after(seconds=-1))(0)
        elif wl == "W5-shelve":
            mem.cache(mod.f).call_and_shelve(0).get()
        elif wl == "W6-compressed":
            mem.cache(mod.f)(0)
        elif wl == "W7-reduce_size":
            mem.reduce_size(items_limit=1)
        elif wl == "W8-clear":
            mem.clear(warn=False)
        elif wl == "W9-second-function":
            mem.cache(mod.g)(0)
    finally:
        if mode == "bare":
            os.mkdir(os.path.join(base, "__END__"))
        else:
            fsmon.stop()
    fsmon.set_dir_order(None)
    if mode != "snap":
        return {"seam_log": seam_log, "cache": cache}
    take(os.path.join(snaps, "%04d" % n[0]))
    return {"snapshots": n[0] + 1, "final_version": final_version, "calls": len(log),
            "mutating": sum(1 for x in log if fsmon.is_mutating(x))}


RECOVERIES = ("calls", "calls-expires_after", "shelve", "reduce_size-then-calls", "clear-then-calls", "load-every-output",
              "calls-then-source-change")


def recover(arg):
    """In a forked child, on a private copy of one crash state."""
    state_dir, work, mods, version, order, how, compress = arg
    _quiet()
    import joblib
    import joblib.memory as M
    M._FUNCTION_HASHES.clear()
    fsmon.set_dir_order(order)
    shutil.rmtree(work, ignore_errors=True)
    fsmon.set_dir_order(None)
    shutil.copytree(state_dir, work)
    fsmon.set_dir_order(order)
    mod = load_module(os.path.join(mods, "vf_c05_mod.py"))
    kw = {"compress": True} if compress else {}
    mem = joblib.Memory(work, verbose=0, **kw)
    out = []
    if how == "load-every-output":
        for dp, _dn, fn in os.walk(work):
            if "output.pkl" in fn:
                p = os.path.join(dp, "output.pkl")
                try:
                    v = joblib.load(p)
                    ok = isinstance(v, tuple) and len(v) in (2, 3) and v[0] in ("v1", "v2", "g")
                    out.append(["output", os.path.relpath(p, work), "ok" if ok else "garbage:%r" % (v,)])
                except Exception as e:  # noqa
                    out.append(["output", os.path.relpath(p, work), "unloadable:%s" % type(e).__name__])
        return out
    if how == "reduce_size-then-calls":
        try:
            mem.reduce_size(items_limit=1)
            out.append(["reduce_size", "ok"])
        except Exception as e:  # noqa
            out.append(["reduce_size", "raises:%s: %s" % (type(e).__name__, str(e)[:120])])
    if how == "clear-then-calls":
        try:
            mem.clear(warn=False)
            out.append(["clear", "ok"])
        except Exception as e:  # noqa
            out.append(["clear", "raises:%s: %s" % (type(e).__name__, str(e)[:120])])
    if how == "calls-expires_after":
        from joblib import expires_after
        cf = mem.cache(mod.f, cache_validation_callback=expires_after(days=1))
    else:
        cf = mem.cache(mod.f)
    cg = mem.cache(mod.g)
    for a in (1, 0, 2):
        try:
            v = cf.call_and_shelve(a).get() if how == "shelve" else cf(a)
            out.append(["f", a, "ok" if v == fval(version, a) else "wrong:%r" % (v,)])
        except Exception as e:  # noqa
            out.append(["f", a, "raises:%s: %s" % (type(e).__name__, str(e)[:120])])
    try:
        v = cg(0)
        out.append(["g", 0, "ok" if v == ("g", 0) else "wrong:%r" % (v,)])
    except Exception as e:  # noqa
        out.append(["g", 0, "raises:%s: %s" % (type(e).__name__, str(e)[:120])])
    # second pass: what was just recomputed must now be served correctly too
    for a in (0, 1):
        try:
            v = cf(a)
            out.append(["f-again", a, "ok" if v == fval(version, a) else "wrong:%r" % (v,)])
        except Exception as e:  # noqa
            out.append(["f-again", a, "raises:%s: %s" % (type(e).__name__, str(e)[:120])])
    if how == "calls-then-source-change":
        # life goes on after the recovery: the source changes once more and a fresh process must see only values of
        # the new source (a recovery must not leave something behind that defeats the next wipe)
        mods2 = work + "-mods9"
        mod9 = load_module(write_module(mods2, 9))
        M._FUNCTION_HASHES.clear()
        cf9 = joblib.Memory(work, verbose=0, **kw).cache(mod9.f)
        for a in (0, 1, 2):
            try:
                v = cf9(a)
                out.append(["f-new-source", a, "ok" if v == fval(9, a) else "wrong:%r" % (v,)])
            except Exception as e:  # noqa
                out.append(["f-new-source", a, "raises:%s: %s" % (type(e).__name__, str(e)[:120])])
        shutil.rmtree(mods2, ignore_errors=True)
    return out


def recover_monitored(arg):
    """Second crash: the recovery itself (plain calls) runs under the seam and is snapshotted."""
    state_dir, base2, mods, version, order, compress = arg
    _quiet()
    import json
    import joblib
    import joblib.memory as M
    M._FUNCTION_HASHES.clear()
    work = os.path.join(base2, "cache")
    snaps = os.path.join(base2, "snaps")
    shutil.rmtree(base2, ignore_errors=True)
    os.makedirs(snaps)
    shutil.copytree(state_dir, work)
    fsmon.set_dir_order(order)
    mod = load_module(os.path.join(mods, "vf_c05_mod.py"))
    mem = joblib.Memory(work, verbose=0, **({"compress": True} if compress else {}))
    n = [0]

    def take(dst):
        shutil.copytree(work, dst)
        meta = {}
        for dp, _dn, fn in os.walk(work):
            for x in fn:
                p = os.path.join(dp, x)
                try:
                    st = os.stat(p)
                    meta[os.path.relpath(p, work)] = [st.st_ino, st.st_size]
                except OSError:
                    pass
        with open(dst + ".meta", "w") as f:
            json.dump(meta, f)

    def snap(name, target):
        fsmon.set_dir_order(None)
        try:
            take(os.path.join(snaps, "%04d" % n[0]))
        finally:
            fsmon.set_dir_order(order)
        n[0] += 1

    fsmon.start(snap)
    try:
        cf = mem.cache(mod.f)
        for a in (1, 0):
            try:
                cf(a)
            except Exception:  # noqa - judged by the first-level recovery
                pass
    finally:
        fsmon.stop()
    fsmon.set_dir_order(None)
    take(os.path.join(snaps, "%04d" % n[0]))
    return n[0] + 1


def crash_states(snaps_dir, states_dir, thorough):
    """Distinct crash states: every snapshot + torn variants. Returns list of (label, path).

    A file is torn only if the SAME inode was smaller (or absent) in the previous snapshot, i.e. it grew
    by writes; a file that appears under a new name by rename keeps its inode and size and is not torn."""
    import json
    names = sorted(x for x in os.listdir(snaps_dir) if not x.endswith(".meta"))
    seen = {}
    out = []
    prev_by_inode = None
    k = 0
    for nm in names:
        p = os.path.join(snaps_dir, nm)
        with open(p + ".meta") as f:
            meta = json.load(f)
        dg = tree_digest(p)
        if dg not in seen:
            seen[dg] = nm
            out.append(("snapshot %s" % nm, p))
        by_inode = {ino: size for _rel, (ino, size) in meta.items()}
        if prev_by_inode is not None:
            for rel, (ino, s1) in meta.items():
                s0 = prev_by_inode.get(ino, 0)
                if s1 > s0 + 1:
                    if s1 - s0 <= 96:
                        # small writes (source header, metadata, small results): every torn length
                        cuts = set(range(s0 + 1, s1))
                    else:
                        cuts = {s0 + 1, (s0 + s1) // 2, s1 - 1}
                        if thorough:
                            cuts |= {s0 + 2, s1 - 2, s0 + (s1 - s0) // 4, s0 + 3 * (s1 - s0) // 4}
                    for c in sorted(c for c in cuts if s0 < c < s1):
                        k += 1
                        dst = os.path.join(states_dir, "torn%04d" % k)
                        shutil.copytree(p, dst)
                        with open(os.path.join(dst, rel), "r+b") as f:
                            f.truncate(c)
                        dg2 = tree_digest(dst)
                        if dg2 in seen:
                            shutil.rmtree(dst)
                            continue
                        seen[dg2] = dst
                        out.append(("snapshot %s with %s torn at %d of %d bytes" % (nm, rel, c, s1), dst))
        prev_by_inode = by_inode
    return out, len(names)


def classify(wl, label, step):
    kind = step[0]
    res = step[-1]
    what = res.split(":")[0]
    if kind == "output":
        return "partial-file-under-final-name|%s" % what
    if what == "raises":
        exc = res.split(":")[1].strip()
        return "%s-raises:%s" % (kind, exc)
    if what == "wrong":
        return "%s-wrong-value" % kind
    return "%s-%s" % (kind, what)


def _work(item):
    wl, order, tier = item
    import joblib  # noqa - imported before forking
    base = core.scratch_dir("c05-%s-%s-%d" % (wl, order, os.getpid()))
    res = core.run_isolated(run_workload, (wl, base, order), timeout=120)
    if res[0] != "ok":
        raise core.HarnessError("workload %s failed: %r" % (wl, res))
    info = res[1]
    states_dir = os.path.join(base, "states")
    os.makedirs(states_dir)
    states, nsnaps = crash_states(os.path.join(base, "snaps"), states_dir, tier != "quick")
    viols = {}
    n = 0
    for label, path in states:
        for how in RECOVERIES:
            n += 1
            r = core.run_isolated(recover, (path, os.path.join(base, "work"), os.path.join(base, "mods"), info["final_version"], order, how,
                                            wl == "W6-compressed"), timeout=120)
            if r[0] != "ok":
                steps = [["recovery-process", "raises:%s" % (r[1] if len(r) > 1 else r[0])]]
            else:
                steps = r[1]
            for st in steps:
                if st[-1] == "ok":
                    continue
                sig = "%s|%s|%s" % (classify(wl, label, st), wl, how)
                if sig not in viols:
                    viols[sig] = [sig, "workload %s (directory order %s) killed at %s; recovery '%s' in a fresh process: %r" % (wl, order, label, how, st),
                                  {"workload": wl, "order": order, "state": label, "recovery": how, "tier": tier}]
    # two-crash histories (thorough): crash the recovery of every first-level snapshot state as well
    n2 = states2 = 0
    if tier != "quick":
        k2 = 0
        seen2 = set()
        for label, path in states:
            if "torn" in label:
                continue
            k2 += 1
            base2 = os.path.join(base, "second")
            r = core.run_isolated(recover_monitored, (path, base2, os.path.join(base, "mods"), info["final_version"], order,
                                                      wl == "W6-compressed"), timeout=120)
            if r[0] != "ok":
                continue
            st2dir = os.path.join(base2, "states")
            os.makedirs(st2dir, exist_ok=True)
            sts2, _ = crash_states(os.path.join(base2, "snaps"), st2dir, False)
            for label2, path2 in sts2:
                dg = tree_digest(path2)
                if dg in seen2:
                    continue
                seen2.add(dg)
                states2 += 1
                for how in ("calls", "load-every-output"):
                    n2 += 1
                    r = core.run_isolated(recover, (path2, os.path.join(base, "work"), os.path.join(base, "mods"), info["final_version"], order, how,
                                                    wl == "W6-compressed"), timeout=120)
                    steps = r[1] if r[0] == "ok" else [["recovery-process", "raises:%s" % (r[1] if len(r) > 1 else r[0])]]
                    for st in steps:
                        if st[-1] == "ok":
                            continue
                        sig = "%s|%s|second-crash|%s" % (classify(wl, label2, st), wl, how)
                        if sig not in viols:
                            viols[sig] = [sig, "workload %s (directory order %s) killed at %s, the recovering process killed at %s; recovery '%s': %r" % (
                                wl, order, label, label2, how, st), {"workload": wl, "order": order, "state": label, "second": label2, "recovery": how, "tier": tier}]
            shutil.rmtree(base2, ignore_errors=True)
    n += n2
    shutil.rmtree(base, ignore_errors=True)
    return {"n": n, "states": len(states) + states2, "snapshots": nsnaps, "fs_calls": info["calls"], "mutating": info["mutating"],
            "viol": list(viols.values()),
            "sample": {"workload": wl, "dir_order": order, "intercepted_fs_calls": info["calls"], "mutating_calls": info["mutating"],
                       "snapshots": nsnaps, "distinct_crash_states_incl_torn": len(states), "recoveries": n}}


def run(ctx):
    # the seam itself is validated first against the kernel's view of the same workloads (strace witness)
    from .. import fswitness
    wl_w = ("W1-cold", "W3-source-changed", "W7-reduce_size") if ctx.tier == "quick" else WORKLOADS
    wit, problems = fswitness.witness(wl_w)
    if problems:
        raise core.HarnessError("the file-system seam (vf.fsmon) misses mutating system calls seen by strace: %s" % "; ".join(problems[:4]))
    ctx.sample({"seam_witness(strace)": wit})
    if problems is None:
        ctx.assumptions.append("strace witness of the file-system seam could not run here (%s): completeness of the seam rests on the callable-identity filter" % wit.get("strace"))
    items = [(wl, order, ctx.tier) for wl in WORKLOADS for order in ("asc", "desc")]
    n = states = snaps = calls = 0
    k = 0
    for res in core.pmap(_work, items):
        k += 1
        n += res["n"]
        states += res["states"]
        snaps += res["snapshots"]
        calls += res["fs_calls"]
        for v in res["viol"]:
            ctx.violation(*v)
        if k % 4 == 1:
            ctx.sample(res["sample"])
    ctx.rule = ("workloads %s x directory order {asc, desc}: one snapshot of the cache directory before EVERY intercepted file-system "
                "call (every prefix of the mutation sequence) + torn variants of every file that grew between two snapshots "
                "(every torn length for writes of <= 96 bytes, else first byte / middle / last byte missing%s); each distinct crash state recovered by %s in fresh forked processes. "
                "evaluations = recoveries; distinct_nontrivial = distinct crash states" % (list(WORKLOADS), "; thorough: 7 cut points" if ctx.tier != "quick" else "", list(RECOVERIES)))
    ctx.exhaustive = True
    ctx.assumptions += ["crash = process death (kill -9): completed system calls are visible, data still in Python-level buffers is lost (the snapshot copies what the OS has)",
                        "a C-level call that issues several write(2) calls is covered by the torn variants, not by separate snapshots",
                        "directory listing order is patched at os.scandir / os.listdir",
                        "seam completeness: every mutating system call that strace -f sees on the cache directory during the witness workloads has a seam event of the same class and file name, unbuffered effects in the same order"]
    return {"evaluations": n, "distinct_nontrivial": states, "snapshots": snaps, "intercepted_fs_calls": calls,
            "workload_runs": len(items), "seam_witness_syscalls_matched": wit.get("syscalls_matched", 0)}


def replay(data):
    res = _work((data["workload"], data["order"], data.get("tier", "quick")))
    for v in res["viol"]:
        print(v[0], v[1])
    if res["viol"]:
        print("VIOLATION property=C05 replay=<this file>")
        return 1
    return 0
