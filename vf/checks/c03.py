"""C03 - dump/load round-trips every picklable object under every compressor / target.

Bounded-exhaustive enumeration: object universe (typed value universe of vf.values, boundary
sized strings/bytes, user classes, shared and recursive references, framing-sized containers)
x compress argument x protocol x target kind, plus the renaming sweep (every file written
is reloaded under every other extension, through a file object and from memory).
Oracle: structural equality with sharing and cycles preserved.
"""

import collections
import enum
import io
import itertools
import math
import os
import shutil

from .. import core, values as V

LEVEL = "exploration"

EXTS = ["", ".pkl", ".z", ".gz", ".bz2", ".xz", ".lzma"]


# -- user classes (module-level so that pickle can import them) ---------------------

class WithDict:
    def __init__(self, a, b):
        self.a = a
        self.b = b


class WithSlots:
    __slots__ = ("a", "b")

    def __init__(self, a, b):
        self.a = a
        self.b = b


class WithReduce:
    def __init__(self, a):
        self.a = a
        self.derived = ("derived", a)

    def __reduce__(self):
        return (WithReduce, (self.a,))


class WithState:
    def __init__(self, a):
        self.a = a
        self.cache = "transient"

    def __getstate__(self):
        return {"a": self.a}

    def __setstate__(self, st):
        self.a = st["a"]
        self.cache = "transient"


NT = collections.namedtuple("NT", "x y")


class Color(enum.Enum):
    RED = 1
    BLUE = 2


class ListSub(list):
    pass


class DictSub(dict):
    pass


def _rand_bytes(n, seed=11):
    out = bytearray()
    x = seed
    while len(out) < n:
        x = (x * 1103515245 + 12345) & 0x7FFFFFFF
        out.append((x >> 16) & 0xFF)
    return bytes(out[:n])


SIZES = [0, 1, 255, 256, 8191, 8192, 8193, 65535, 65536, 65537, 2 ** 20 - 1, 2 ** 20, 2 ** 20 + 1]


def special_objects(tier):
    """(name, maker) pairs; makers build a fresh object each time."""
    out = []
    sizes = SIZES if tier != "quick" else [0, 1, 255, 256, 8191, 8192, 8193, 65536, 2 ** 20 + 1]
    for n in sizes:
        out.append(("str-a*%d" % n, lambda n=n: "a" * n))
        out.append(("bytes-rand-%d" % n, lambda n=n: _rand_bytes(n)))
        if n in (0, 1, 256, 8192, 65537, 65536, 2 ** 20 + 1):
            out.append(("bytes-zero-%d" % n, lambda n=n: b"\0" * n))
            out.append(("bytearray-%d" % n, lambda n=n: bytearray(_rand_bytes(n, 5))))
            out.append(("str-unicode-%d" % n, lambda n=n: ("é中\U0001F600x" * (n // 4 + 1))[:n]))
    out += [
        ("floats", lambda: [0.0, -0.0, 1.5, float("inf"), float("-inf"), float("nan"), 1e-320, 1.7976931348623157e308]),
        ("ints", lambda: [0, -1, 255, 256, 65535, 65536, 2 ** 31 - 1, 2 ** 31, -2 ** 31 - 1, 2 ** 63, 2 ** 64, -2 ** 100, 10 ** 400]),
        ("complex", lambda: [1j, complex(-0.0, float("inf"))]),
        ("singletons", lambda: [None, True, False, Ellipsis, NotImplemented]),
        ("types-and-functions", lambda: [int, WithDict, len, os.path.join, collections.OrderedDict]),
        ("range-slice", lambda: [range(3), range(10, 0, -2), slice(1, None, 2)]),
        ("with-dict", lambda: WithDict(1, [2, 3])),
        ("with-slots", lambda: WithSlots("x", {"y": 1})),
        ("with-reduce", lambda: WithReduce((1, 2))),
        ("with-state", lambda: WithState([1])),
        ("namedtuple", lambda: NT(1, [2])),
        ("enum", lambda: [Color.RED, Color.BLUE, Color.RED]),
        ("list-subclass", lambda: ListSub([1, 2, WithDict(3, 4)])),
        ("dict-subclass", lambda: DictSub(a=1, b=[2])),
        ("ordereddict", lambda: collections.OrderedDict([("z", 1), ("a", 2)])),
        ("defaultdict", lambda: collections.defaultdict(list, {"k": [1]})),
        ("deque", lambda: collections.deque([1, 2, 3], maxlen=5)),
        ("counter", lambda: collections.Counter("abracadabra")),
        ("deep-nesting", _deep),
        ("shared-list", _shared_list),
        ("shared-in-dict", _shared_dict),
        ("recursive-list", _rec_list),
        ("recursive-dict", _rec_dict),
        ("recursive-object", _rec_obj),
        ("tuple-in-list-in-tuple", _rec_tuple),
        ("list-20000-ints", lambda: list(range(20000))),
        ("list-3000-strings", lambda: ["s%05d" % i * 12 for i in range(3000)]),
        ("dict-5000", lambda: {i: str(i) for i in range(5000)}),
        ("set-of-tuples", lambda: {(i, str(i)) for i in range(50)}),
        ("frozenset-nested", lambda: frozenset([frozenset([1, 2]), frozenset(["a"])])),
        ("many-shared-strings", lambda: ["shared-string-%d" % (i % 3) for i in range(200)]),
    ]
    return out


def _deep():
    x = []
    for _ in range(60):
        x = [x, {"k": x}]
    return x


def _shared_list():
    l = [1, 2]
    return [l, l, {"k": l}, (l, l)]


def _shared_dict():
    d = {"a": 1}
    o = WithDict(d, d)
    return [o, o, d]


def _rec_list():
    l = [1]
    l.append(l)
    return l


def _rec_dict():
    d = {}
    d["self"] = d
    d["list"] = [d]
    return d


def _rec_obj():
    a = WithDict(1, None)
    b = WithDict(2, a)
    a.b = b
    return [a, b]


def _rec_tuple():
    l = []
    t = (l, 1)
    l.append(t)
    return t


# -- structural equality ---------------------------------------------------------------

_ATOMS = (int, float, complex, str, bytes, bool, type(None), type(Ellipsis), type(NotImplemented), range, slice)


def struct_eq(a, b, ab=None, ba=None, depth=0):
    """Equal structure, equal types, same sharing pattern among mutable containers / instances."""
    if ab is None:
        ab, ba = {}, {}
    if type(a) is not type(b):
        return False
    if isinstance(a, float):
        return repr(a) == repr(b)
    if isinstance(a, complex):
        return repr(a) == repr(b)
    if isinstance(a, _ATOMS) or isinstance(a, enum.Enum) or isinstance(a, type) or callable(a) and not hasattr(a, "__dict__"):
        return a == b
    if callable(a) and type(a).__name__ in ("function", "builtin_function_or_method"):
        return a is b
    track = not isinstance(a, (tuple, frozenset))
    if track:
        if id(a) in ab:
            return ab[id(a)] == id(b)
        if id(b) in ba:
            return False
        ab[id(a)] = id(b)
        ba[id(b)] = id(a)
    elif id(a) in ab:
        return ab[id(a)] == id(b)
    else:
        ab[id(a)] = id(b)
    if isinstance(a, (list, tuple, collections.deque)):
        if len(a) != len(b):
            return False
        if isinstance(a, collections.deque) and a.maxlen != b.maxlen:
            return False
        if isinstance(a, tuple) and hasattr(a, "_fields") and a._fields != b._fields:
            return False
        return all(struct_eq(x, y, ab, ba, depth + 1) for x, y in zip(a, b))
    if isinstance(a, bytearray):
        return a == b
    if isinstance(a, dict):
        if len(a) != len(b):
            return False
        if isinstance(a, collections.OrderedDict) and list(a) != list(b):
            return False
        if isinstance(a, collections.defaultdict) and a.default_factory is not b.default_factory:
            return False
        for k in a:
            if k not in b:
                return False
            if not struct_eq(a[k], b[k], ab, ba, depth + 1):
                return False
        return True
    if isinstance(a, (set, frozenset)):
        # elements are hashable values: compare as multisets of typed renderings (nan != nan under ==)
        return sorted(_typed_repr(x) for x in a) == sorted(_typed_repr(x) for x in b)
    # user instances
    sa = _state(a)
    sb = _state(b)
    return struct_eq(sa, sb, ab, ba, depth + 1)


def _typed_repr(x):
    if isinstance(x, (tuple, frozenset)):
        inner = [_typed_repr(e) for e in x]
        if isinstance(x, frozenset):
            inner.sort()
        return "%s(%s)" % (type(x).__name__, ",".join(inner))
    return "%s:%r" % (type(x).__name__, x)


def _state(o):
    st = {}
    if hasattr(o, "__dict__"):
        st.update(o.__dict__)
    for s in getattr(type(o), "__slots__", ()):
        if hasattr(o, s):
            st[s] = getattr(o, s)
    return st


# -- configuration space -----------------------------------------------------------

def compress_args(tier):
    out = [False, True, 0, 1, 3, 9, "zlib", "gzip", "bz2", "lzma", "xz",
           ("zlib", 1), ("gzip", 3), ("bz2", 9), ("lzma", 1), ("xz", 3), ("zlib", 0), ("gzip", 0)]
    if tier != "quick":
        out += [2, 4, 5, 6, 7, 8] + [(n, l) for n in ("zlib", "gzip", "bz2", "lzma", "xz") for l in (1, 3, 9)]
    seen = []
    for c in out:
        if not any(c == s and type(c) is type(s) for s in seen):
            seen.append(c)
    return seen


def protocols(tier):
    # all of them in both tiers: protocols 0 and 1 have no header, so the first byte of the file is the
    # first opcode of the top-level object and content sniffing sees a different prefix per (protocol, type)
    return [None, 0, 1, 2, 3, 4, 5]


def roundtrip(maker, compress, protocol, target, d, rename):
    """Returns list of (what, detail) failures for one (object, compress, protocol, target)."""
    import joblib
    obj = maker()
    fails = []
    kind, ext = target
    path = os.path.join(d, "f" + ext)
    try:
        import pickle
        pickle.dumps(obj, pickle.DEFAULT_PROTOCOL if protocol is None else protocol)
    except Exception:  # noqa
        return [], 0    # not picklable under this protocol by Python itself: outside the property's domain
    try:
      with core.time_limit(120):
        if kind == "path":
            joblib.dump(obj, path, compress=compress, protocol=protocol)
            data = open(path, "rb").read()
        elif kind == "fileobj":
            with open(path, "wb") as f:
                joblib.dump(obj, f, compress=compress, protocol=protocol)
            data = open(path, "rb").read()
        else:
            b = io.BytesIO()
            joblib.dump(obj, b, compress=compress, protocol=protocol)
            data = b.getvalue()
    except core.Watchdog:
        return [("dump-does-not-terminate", "dump did not return within 120 s")], 0
    except Exception as e:  # noqa
        return [("dump-raises:%s" % type(e).__name__, "dump raised %s: %s" % (type(e).__name__, str(e)[:200]))], 0
    nload = 0
    loads = []
    if kind != "bytesio":
        loads.append(("path", lambda: joblib.load(path)))
        loads.append(("fileobj", lambda: _load_fobj(path)))
    loads.append(("bytesio", lambda: joblib.load(io.BytesIO(data))))
    if rename:
        for e2 in EXTS:
            if e2 == ext and kind != "bytesio":
                continue
            p2 = os.path.join(d, "g" + e2)
            loads.append(("renamed" + (e2 or "<noext>"), lambda p2=p2: _load_renamed(data, p2)))
    for how, fn in loads:
        nload += 1
        try:
            with core.time_limit(60):
                got = fn()
        except core.Watchdog:
            fails.append(("load-does-not-terminate|via-%s" % ("renamed" if how.startswith("renamed") else how),
                          "load (%s) did not return within 60 s" % how))
            continue
        except Exception as e:  # noqa
            fails.append(("load-raises:%s|via-%s" % (type(e).__name__, how.split(".")[0] if how.startswith("renamed") else how),
                          "load (%s) raised %s: %s" % (how, type(e).__name__, str(e)[:200])))
            continue
        if not struct_eq(maker(), got):
            r = repr(got)
            fails.append(("not-equal|via-%s" % ("renamed" if how.startswith("renamed") else how),
                          "load (%s) returned %s" % (how, r if len(r) < 300 else r[:300] + "...")))
    return fails, nload


def _load_fobj(path):
    import joblib
    with open(path, "rb") as f:
        return joblib.load(f)


def _load_renamed(data, p2):
    import joblib
    with open(p2, "wb") as f:
        f.write(data)
    try:
        return joblib.load(p2)
    finally:
        os.unlink(p2)


_REG = {}


def _resolve(tier, name):
    if tier not in _REG:
        reg = dict(special_objects(tier))
        for s in V.universe(2):
            reg["U:" + V.canon(s)] = (lambda s=s: V.build(s))
        _REG[tier] = reg
    return _REG[tier][name]


def _work(item):
    tier, names, combos = item
    objs = [(nm, _resolve(tier, nm)) for nm in names]
    import logging
    logging.disable(logging.CRITICAL)
    d = core.scratch_dir("c03-%d" % os.getpid())
    n = 0
    nload = 0
    viols = {}
    for name, maker in objs:
        for compress, protocol, target, rename in combos:
            n += 1
            fails, k = roundtrip(maker, compress, protocol, target, d, rename)
            nload += k
            for what, detail in fails:
                cls = name.split("-")[0] if not name.startswith("U:") else "universe"
                sig = "%s|%s|compress=%s" % (what, cls, compress if not isinstance(compress, tuple) else compress[0] + "-tuple")
                if sig not in viols:
                    viols[sig] = [sig, "object %s, compress=%r, protocol=%r, target=%r: %s" % (name, compress, protocol, target, detail),
                                  {"object": name, "compress": list(compress) if isinstance(compress, tuple) else compress,
                                   "compress_is_tuple": isinstance(compress, tuple), "protocol": protocol,
                                   "target": list(target), "tier": tier}]
    shutil.rmtree(d, ignore_errors=True)
    return {"n": n, "loads": nload, "viol": list(viols.values())}


TARGETS = [("path", e) for e in EXTS] + [("fileobj", ""), ("fileobj", ".gz"), ("bytesio", "")]


def universe_objects(tier, seed):
    specs = V.universe(2)
    if tier == "quick":
        rot = __import__("vf.parcommon", fromlist=["x"]).rotate_slice
        specs = V.universe(1) + rot(V.level2(), seed, 12)
    return ["U:" + V.canon(s) for s in specs]


def plan(ctx):
    tier = ctx.tier
    cargs = compress_args(tier)
    protos = protocols(tier)
    items = []
    spec = special_objects(tier)
    spec = [o[0] for o in spec]
    small = [o for o in spec if not any(t in o for t in ("1048575", "1048576", "1048577", "65535", "65536", "65537", "20000", "5000", "3000"))]
    large = [o for o in spec if o not in small]
    # small special objects: full product, renaming sweep on the default protocol
    full = []
    for c, p, t in itertools.product(cargs, protos, TARGETS):
        full.append((c, p, t, p is None))
    for o in small:
        items.append((tier, [o], full))
    # large objects: every compress arg on one target + every target with a few compress args
    lc = []
    for c in cargs:
        if isinstance(c, tuple) and c[1] == 9 and tier == "quick":
            continue
        lc.append((c, None, ("path", ""), False))
    for t in TARGETS:
        for c in (False, True, ("gzip", 3), "xz"):
            lc.append((c, 4 if tier == "quick" else 5, t, t == ("path", ".z")))
    for p in protos:
        lc.append((3, p, ("bytesio", ""), False))
    for o in large:
        for i in range(0, len(lc), 12):
            items.append((tier, [o], lc[i:i + 12]))
    # value universe: reduced compress / protocol / target menu
    uc = []
    for c in (False, True, ("gzip", 3), "bz2", "xz", "lzma"):
        for p in ((0, 1, 2, 4) if tier == "quick" else (0, 1, 2, 3, 4, 5)):
            uc.append((c, p, ("bytesio", ""), False))
    uc.append((True, None, ("path", ".pkl"), True))
    uni = universe_objects(tier, ctx.seed)
    for i in range(0, len(uni), 60):
        items.append((tier, uni[i:i + 60], uc))
    return items, len(spec), len(uni)


def run(ctx):
    items, nspec, nuni = plan(ctx)
    n = nload = 0
    for res in core.pmap(_work, items):
        n += res["n"]
        nload += res["loads"]
        for v in res["viol"]:
            ctx.violation(*v)
    ctx.rule = ("objects: %d special objects (boundary-sized str/bytes/bytearray, numbers, user classes with __dict__/__slots__/"
                "__reduce__/__getstate__, namedtuple, enum, container subclasses, shared and recursive references, framing-sized "
                "containers) + %d values of the typed universe; compress in %s; protocols %s; targets %s; every file additionally "
                "reloaded through a file object, from memory and (default protocol) under every other extension. One case = "
                "one dump; distinct by construction; all non-trivial" % (nspec, nuni, compress_args(ctx.tier), protocols(ctx.tier), TARGETS))
    ctx.exhaustive = True
    ctx.sample({"object": "recursive-dict", "compress": ["gzip", 3], "protocol": 2, "target": ["path", ".bz2"], "renamed_loads": EXTS})
    ctx.sample({"object": "bytes-rand-8193", "compress": True, "protocol": None, "target": ["bytesio", ""]})
    ctx.assumptions += ["lz4 is not installed: not part of the space", "numpy absent (baseline environment): array paths are C19's",
                        "equality oracle: same types, same values (floats by repr), same sharing pattern among mutable containers and instances"]
    return {"evaluations": n, "distinct_nontrivial": n, "loads_compared": nload, "special_objects": nspec, "universe_values": nuni}


def replay(data):
    tier = data.get("tier", "quick")
    objs = dict(special_objects(tier))
    name = data["object"]
    if name.startswith("U:"):
        specs = {("U:" + V.canon(s)): s for s in V.universe(2)}
        maker = lambda: V.build(specs[name])
    else:
        maker = objs[name]
    compress = tuple(data["compress"]) if data.get("compress_is_tuple") else data["compress"]
    d = core.scratch_dir("c03r")
    fails, _ = roundtrip(maker, compress, data["protocol"], tuple(data["target"]), d, True)
    for f in fails:
        print(f)
    if fails:
        print("VIOLATION property=C03 replay=<this file>")
        return 1
    return 0
