"""C18 - reduce_size enforces every limit by evicting the minimal LRU prefix.

Bounded-exhaustive enumeration of stores (<= 4 entries, sizes in {0,1,2,3} units, access
times in {t1,t2,t3} incl. ties) x bytes_limit x items_limit x age_limit (datetime.now owned
by the harness), executed through the real Memory.reduce_size on real entry directories.
Reference: brute force over the tie-breaking orders - the evicted set must be the
shortest least-recently-used prefix after which all limits hold.
"""

import datetime
import itertools
import os
import shutil
import sys
import types

from .. import core

LEVEL = "exploration"

UNIT = 100
T0 = 1_600_000_000          # access times t1 < t2 < t3, one hour apart
NOW = T0 + 20000
# access-time scales t1 < t2 < t3: within hours of now; days old (ages that differ from their value modulo 24 h); a
# last access in the future (clock skew between writers)
SCALES = {"hours": [T0 + 3600, T0 + 7200, T0 + 10800],
          "days": [NOW - 2 * 86400 - 10, NOW - 86400 + 5, NOW - 30],
          "future": [NOW - 3 * 86400 - 1, NOW - 10, NOW + 600]}
TIMES = SCALES["hours"]


class _FakeDT(datetime.datetime):
    _now = None

    @classmethod
    def now(cls, tz=None):
        return cls.fromtimestamp(cls._now)


def _patch_now():
    import joblib._store_backends as SB
    os.path.getatime = _getatime
    shim = types.SimpleNamespace(datetime=_FakeDT, timedelta=datetime.timedelta, date=datetime.date)
    SB.datetime = shim
    _FakeDT._now = NOW


def stores(max_entries):
    kinds = [(s, t) for s in range(4) for t in range(3)]
    out = []
    for n in range(max_entries + 1):
        for combo in itertools.combinations_with_replacement(kinds, n):
            out.append(combo)
    return out


def hexname(i):
    return ("%02x" % (i * 37 % 251)) * 16


NOOUT = [None]      # which entries have no output.pkl (only metadata.json): None | "first" | "all"


def _has_output(i):
    return NOOUT[0] is None or (NOOUT[0] == "first" and i != 0)


def build_store(root, store):
    """Create <root>/joblib/m/f/<hex>/output.pkl with exact sizes and access times.  An entry without output file (a
    result that could not be pickled, a killed writer) is a directory holding only metadata.json: joblib then takes the
    directory's access time and the size of what is there."""
    base = os.path.join(root, "joblib", "m", "f")
    os.makedirs(base, exist_ok=True)
    paths = []
    for i, (s, t) in enumerate(store):
        d = os.path.join(base, hexname(i))
        os.makedirs(d, exist_ok=True)
        p = os.path.join(d, "output.pkl" if _has_output(i) else "metadata.json")
        with open(p, "wb") as f:
            f.write(b"x" * (s * UNIT))
        os.utime(p, (TIMES[t], TIMES[t]))
        if not _has_output(i):
            # the access time of a DIRECTORY is not ours to set (reading the directory updates it under relatime):
            # it is an environment answer, given through os.path.getatime
            _DIR_ATIME[d] = TIMES[t]
        paths.append(d)
    return paths


_DIR_ATIME = {}
_real_getatime = os.path.getatime


def _getatime(path):
    v = _DIR_ATIME.get(os.fspath(path))
    return v if v is not None else _real_getatime(path)


def limits_for(store):
    sizes = [s * UNIT for s, _ in store]
    total = sum(sizes)
    bl = {None, 0, total, "1K"}
    # prefix sums over the LRU order (by time, then size) and +-1
    order = sorted(store, key=lambda e: (e[1], e[0]))
    acc = 0
    for s, _t in order:
        acc += s * UNIT
        rem = total - acc
        for v in (rem - 1, rem, rem + 1):
            if v >= 0:
                bl.add(v)
    il = [None] + list(range(0, len(store) + 1)) + [len(store) + 2]
    al = [None, datetime.timedelta(0)]
    for t in sorted({t for _s, t in store}):
        age = NOW - TIMES[t]
        for a in (age - 1, age + 1):
            if a >= 0:      # joblib rejects a negative age_limit (ValueError): outside the domain
                al.append(datetime.timedelta(seconds=a))
    al.append(datetime.timedelta(days=30))
    return sorted(bl, key=repr), il, al


def to_bytes(v):
    if v == "1K":
        return 1024
    return v


def acceptable_evictions(store, bytes_limit, items_limit, age_limit):
    """Set of frozensets of entry indices that are a shortest LRU prefix meeting all limits (any tie order)."""
    n = len(store)
    idx = list(range(n))
    deadline = None if age_limit is None else NOW - age_limit.total_seconds()
    bl = to_bytes(bytes_limit)
    groups = {}
    for i in idx:
        groups.setdefault(store[i][1], []).append(i)
    times = sorted(groups)
    orders = [[]]
    for t in times:
        new = []
        for o in orders:
            for perm in itertools.permutations(groups[t]):
                new.append(o + list(perm))
        orders = new
    ok = set()
    for o in orders:
        for k in range(n + 1):
            rest = o[k:]
            size = sum(store[i][0] * UNIT for i in rest)
            if bl is not None and size > bl:
                continue
            if items_limit is not None and len(rest) > items_limit:
                continue
            if deadline is not None and any(TIMES[store[i][1]] <= deadline for i in rest):
                continue
            ok.add(frozenset(o[:k]))
            break
    return ok


def _work(item):
    global TIMES
    tier, chunk = item[:2]
    scale = item[2] if len(item) > 2 else "hours"
    NOOUT[0] = None
    if "+" in scale:
        scale, no = scale.split("+")
        NOOUT[0] = no
    TIMES = SCALES[scale]
    import joblib
    _patch_now()
    root = core.scratch_dir("c18-%d" % os.getpid())
    n = 0
    nontrivial = 0
    viols = {}
    for store in chunk:
        loc = os.path.join(root, "s")
        shutil.rmtree(loc, ignore_errors=True)
        paths = build_store(loc, store)
        mem = joblib.Memory(loc, verbose=0)
        bls, ils, als = limits_for(store)
        for bl, il, al in itertools.product(bls, ils, als):
            n += 1
            try:
                mem.reduce_size(bytes_limit=bl, items_limit=il, age_limit=al)
                exc = None
            except Exception as e:  # noqa
                exc = "%s: %s" % (type(e).__name__, e)
            present = [os.path.exists(os.path.join(p, "output.pkl" if _has_output(i) else "metadata.json")) for i, p in enumerate(paths)]
            evicted = frozenset(i for i, p in enumerate(present) if not p)
            ok = acceptable_evictions(store, bl, il, al)
            if evicted:
                nontrivial += 1
            if exc is not None or evicted not in ok:
                if exc is not None:
                    kind = "raises"
                else:
                    smallest = min(len(s) for s in ok)
                    if len(evicted) > smallest:
                        kind = "evicts-too-much"
                    elif len(evicted) < smallest:
                        kind = "limit-not-enforced"
                    else:
                        kind = "not-lru-order"
                which = "+".join(x for x, v in (("bytes", bl), ("items", il), ("age", al)) if v is not None) or "none"
                sig = "%s|%s" % (kind, which) + ("" if scale == "hours" else "|access-times-" + scale) + ("" if NOOUT[0] is None else "|entries-without-output")
                if sig not in viols:
                    viols[sig] = [sig, "store (size units, time index) %r with bytes_limit=%r items_limit=%r age_limit=%r: evicted entries %r%s; acceptable minimal LRU prefixes: %r" % (
                        list(store), bl, il, al, sorted(evicted), (" and raised " + exc) if exc else "", [sorted(s) for s in ok]),
                        {"store": [list(e) for e in store], "bytes_limit": bl, "items_limit": il,
                         "age_limit_s": None if al is None else al.total_seconds(), "scale": scale + ("" if NOOUT[0] is None else "+" + NOOUT[0])}]
            # restore evicted entries
            if evicted:
                build_store(loc, store)
    shutil.rmtree(root, ignore_errors=True)
    return {"n": n, "nontrivial": nontrivial, "viol": list(viols.values())}


def genuine_results(ctx):
    """Surviving entries stay loadable, evicted ones are recomputed (real cached function)."""
    import importlib.util
    import joblib
    import joblib.memory as M
    _patch_now()
    d = core.scratch_dir("c18g")
    modp = os.path.join(d, "vf_c18_mod.py")
    with open(modp, "w") as f:
        f.write("CALLS = []\n\ndef f(x):\n    CALLS.append(x)\n    return ['v', x] * (x + 1)\n")
    spec = importlib.util.spec_from_file_location("vf_c18_mod", modp)
    mod = importlib.util.module_from_spec(spec)
    sys.modules["vf_c18_mod"] = mod
    spec.loader.exec_module(mod)
    n = 0
    for keep in range(0, 5):
        for order in itertools.permutations(range(4)) if ctx.tier != "quick" else [(0, 1, 2, 3), (3, 1, 0, 2), (2, 3, 1, 0)]:
            n += 1
            loc = os.path.join(d, "c%d" % n)
            mem = joblib.Memory(loc, verbose=0)
            cf = mem.cache(mod.f)
            for x in range(4):
                cf(x)
            # access order: order[0] oldest
            for rank, x in enumerate(order):
                p = os.path.join(mem.store_backend.location, cf.func_id, cf._get_args_id(x), "output.pkl")
                os.utime(p, (T0 + 100 * rank, T0 + 100 * rank))
            mem.reduce_size(items_limit=keep)
            del mod.CALLS[:]
            M._FUNCTION_HASHES.clear()
            cf2 = joblib.Memory(loc, verbose=0).cache(mod.f)
            expect_evicted = set(order[: 4 - keep]) if keep < 4 else set()
            in_cache = {x: cf2.check_call_in_cache(x) for x in range(4)}
            vals = {x: cf2(x) for x in range(4)}
            bad = None
            if any(vals[x] != ['v', x] * (x + 1) for x in range(4)):
                bad = ("wrong-value-after-reduce", "values %r" % vals)
            elif set(mod.CALLS) != expect_evicted:
                bad = ("recompute-set", "recomputed %r, expected exactly the evicted %r" % (sorted(set(mod.CALLS)), sorted(expect_evicted)))
            elif {x for x, v in in_cache.items() if not v} != expect_evicted:
                bad = ("check_call_in_cache", "check_call_in_cache false for %r, expected %r" % (sorted(x for x, v in in_cache.items() if not v), sorted(expect_evicted)))
            if bad:
                ctx.violation("genuine|" + bad[0], "4 cached results, LRU order %r, reduce_size(items_limit=%d): %s" % (order, keep, bad[1]),
                              {"part": "genuine", "order": list(order), "items_limit": keep})
            shutil.rmtree(loc, ignore_errors=True)
    return n


def run(ctx):
    quick = ctx.tier == "quick"
    all_stores = stores(4 if quick else 5)
    if quick:
        from ..parcommon import rotate_slice
        small = [s for s in all_stores if len(s) <= 3]
        four = rotate_slice([s for s in all_stores if len(s) == 4], ctx.seed, 3)
        sel = small + four
    else:
        sel = all_stores
    chunks = [sel[i::64] for i in range(64)]
    work = [(ctx.tier, c, "hours") for c in chunks if c]
    other = [s for s in all_stores if len(s) <= (3 if quick else 4)]
    for scale in ("days", "future", "hours+first", "hours+all"):
        work += [(ctx.tier, c, scale) for c in (other[i::32] for i in range(32)) if c]
    n = nontrivial = 0
    for res in core.pmap(_work, work):
        n += res["n"]
        nontrivial += res["nontrivial"]
        for v in res["viol"]:
            ctx.violation(*v)
    g = genuine_results(ctx)
    ctx.rule = ("all stores of <= 4 (quick) / <= 5 (thorough) entries as multisets of (size in {0,1,2,3}x100 bytes, access time in {t1,t2,t3} on three scales: hours old, days old (age != age mod 24 h), last access in the future; also with the first / every entry lacking its output file) built as real "
                "entry directories with exact output.pkl size and utime, x bytes_limit in {None, 0, total, '1K', every LRU prefix "
                "remainder +-1} x items_limit in {None, 0..n, n+2} x age_limit in {None, 0, each access-time boundary +-1 s, 30 days} "
                "through Memory.reduce_size; quick = all stores with <= 3 entries + a seed-rotated sixth of the 4-entry stores. "
                "non-trivial = at least one entry evicted. Plus %d stores of genuine cached results (loadability / recompute)." % g)
    ctx.exhaustive = True
    ctx.sample({"store": [[1, 0], [3, 0], [0, 2]], "bytes_limit": 101, "items_limit": 2, "age_limit_s": 9199.0})
    ctx.sample({"store": [[2, 1], [2, 1]], "bytes_limit": 200, "items_limit": None, "age_limit_s": None, "note": "tie: either entry may go"})
    ctx.assumptions += ["datetime.now inside joblib._store_backends is owned by the harness (module attribute rebinding)",
                        "age boundary equality (last access exactly at the deadline) is not exercised (+-1 s)"]
    return {"evaluations": n + g, "distinct_nontrivial": nontrivial, "stores": len(sel), "genuine_result_cases": g}


def replay(data):
    import joblib
    _patch_now()
    if data.get("part") == "genuine":
        print(data)
        return 1
    root = core.scratch_dir("c18r")
    store = [tuple(e) for e in data["store"]]
    paths = build_store(root, store)
    al = None if data["age_limit_s"] is None else datetime.timedelta(seconds=data["age_limit_s"])
    joblib.Memory(root, verbose=0).reduce_size(bytes_limit=data["bytes_limit"], items_limit=data["items_limit"], age_limit=al)
    evicted = frozenset(i for i, p in enumerate(paths) if not os.path.exists(os.path.join(p, "output.pkl")))
    ok = acceptable_evictions(store, data["bytes_limit"], data["items_limit"], al)
    print("evicted", sorted(evicted), "acceptable", [sorted(s) for s in ok])
    if evicted not in ok:
        print("VIOLATION property=C18 replay=<this file>")
        return 1
    return 0
