"""C16 - generator outputs: prompt, in the promised order, safe to abandon.

Consumer programs on return_as='generator' / 'generator_unordered' explored under the
controlled scheduler: exhaust; pull results one by one under a *withholding environment*
(promptness as reachability: the environment completes exactly the batches a result may
depend on and then refuses further completions - a hang verdict means the result waited
for a later task); close / drop / leave the with block after k results, then a fresh call;
a second call while the first generator is alive (RuntimeError expected).
"""

import itertools

from .. import core, parcommon as PC

LEVEL = "model_checking"


def to_scenario(c):
    n, k = c["n"], c.get("k", 0)
    ra = c["return_as"]
    mode = "ordered" if ra == "generator" else "unordered"
    s = c["script"]
    first = {"n": n, "input": "gen"}
    if s == "exhaust":
        prog = [("call", first), ("exhaust", 1)]
    elif s == "prompt":
        if mode == "ordered":
            first["hold_after"] = -1
        else:
            first["hold_count"] = 0
        prog = [("call", first), ("next", 1, n, mode, 0), ("exhaust", 1)]
    elif s in ("close", "drop"):
        prog = [("call", first), ("next", 1, k), (s, 1), ("call", {"n": n, "input": "gen"}), ("exhaust", 2)]
    elif s == "overlap":
        # the withholding environment keeps run 1 unfinished while the second call is attempted
        if mode == "ordered":
            first["hold_after"] = -1
        else:
            first["hold_count"] = 0
        prog = [("call", first), ("next", 1, k, mode, 0), ("call", {"n": n, "input": "gen"}), ("exhaust", 1),
                ("call", {"n": n, "input": "gen"}), ("exhaust", 3)]
    elif s == "overlap-finished":
        # no withholding: in the schedules where every task of run 1 has completed (and the consumer pulled once more)
        # the object accepts the second call - the rest of run 1's results must still come out of its generator
        prog = [("call", first), ("next", 1, max(1, k)), ("call", {"n": n, "input": "gen"}), ("exhaust", 1), ("exhaust", 2)]
    elif s == "with-exit":
        prog = [("enter",), ("call", first), ("next", 1, k), ("exit",), ("drop", 1),
                ("call", {"n": n, "input": "gen"}), ("exhaust", 2)]
    elif s == "with-exit-overlap":
        # the with block is left while the generator of run 1 is still alive and unfinished: the object is still running
        if mode == "ordered":
            first["hold_after"] = -1
        else:
            first["hold_count"] = 0
        prog = [("enter",), ("call", first), ("next", 1, k, mode, 0), ("exit",), ("call", {"n": n, "input": "gen"}),
                ("drop", 1), ("call", {"n": n, "input": "gen"}), ("exhaust", 3)]
    elif s == "with-close":
        prog = [("enter",), ("call", first), ("next", 1, k), ("close", 1),
                ("call", {"n": n, "input": "gen"}), ("exhaust", 2), ("exit",)]
    else:
        raise ValueError(s)
    return dict(n_jobs=c["n_jobs"], batch_size=c["batch_size"], pre_dispatch=c["pre_dispatch"], return_as=ra,
                order="free", abort=c.get("abort", "drop"), withhold=(c.get("abort") == "zombie"),
                program=prog, script=s, n=n, k=k)


def judge(cfg, obs):
    env = obs.env
    ra = cfg["return_as"]
    ordered = ra == "generator"
    s = cfg["script"]
    n = cfg["n"]
    tag = "%s|%s" % (s, "ordered" if ordered else "unordered")
    if obs.verdict in ("deadlock", "hang"):
        step = obs.steps[-1]["kind"] if obs.steps else "?"
        if s == "prompt" and step == "next":
            got = obs.steps[-1].get("got", [])
            return [("not-prompt|%s" % ("ordered" if ordered else "unordered"),
                     "result #%d was not delivered although every task it depends on had completed and no further completion was allowed (received so far %r)" % (len(got), got))]
        return [("%s-in-%s|%s" % (obs.verdict, step, tag), "step %s never terminates (%s); steps %r" % (step, obs.verdict, [PC._step_view(r) for r in obs.steps]))]
    bad = []
    received = {}
    exhausted = set()
    call_exc = {}
    for r in obs.steps:
        c = r.get("call_no")
        if r["kind"] in ("harness", "completer"):
            bad.append(("exception-in-callback-thread:%s|%s" % (r["exc"][0], tag), "callback thread died: %r" % (r["exc"],)))
            continue
        if r["kind"] in ("next", "exhaust"):
            received.setdefault(c, []).extend(r.get("got", []))
            if r["kind"] == "exhaust" and "exc" not in r:
                exhausted.add(c)
        if "exc" in r:
            if r["kind"] == "call":
                call_exc[c] = r["exc"]
            elif c in call_exc and r["exc"][0] == "KeyError":
                pass        # the harness has no generator for a call that raised: nothing to pull from
            elif r["exc"][0] != "StopIteration" or r["kind"] != "next":
                bad.append(("exception-in-%s:%s|%s" % (r["kind"], r["exc"][0], tag), "step %s (call %s) raised %s%r" % (r["kind"], c, r["exc"][0], r["exc"][1])))
    expect_runtime = {2} if s in ("overlap", "with-exit-overlap") else set()
    if s in ("overlap", "with-exit-overlap") and 2 not in call_exc:
        # every task of run 1 had completed, so the second call was accepted (judged below): run 2 is never consumed by
        # these programs and is still unfinished when the third call is made - which is then rightly rejected
        expect_runtime = {3}
    if s == "overlap-finished" and 2 in call_exc and call_exc[2][0] == "RuntimeError":
        expect_runtime = {2}     # the generator of run 1 is not exhausted: rejecting the call is always acceptable
    for c in sorted(set(list(received) + list(call_exc))):
        if c in expect_runtime:
            continue
        if c in call_exc:
            bad.append(("call-raises:%s|%s" % (call_exc[c][0], tag), "call %d raised %s%r" % (c, call_exc[c][0], call_exc[c][1])))
            continue
        got = received.get(c, [])
        want = [("r", c, i) for i in range(n)]
        if any(not (isinstance(x, tuple) and x[1] == c) for x in got):
            bad.append(("foreign-result|%s" % tag, "generator of call %d yielded %r" % (c, got)))
            continue
        if ordered:
            if got != want[:len(got)]:
                bad.append(("wrong-order|%s" % tag, "generator of call %d yielded %r, expected a prefix of %r" % (c, got, want)))
        else:
            if len(set(got)) != len(got):
                bad.append(("result-twice|%s" % tag, "unordered generator of call %d yielded a result twice: %r" % (c, got)))
            fin = [("r", c, i) for e in env.events if e[0] == "finish" and e[1] == c for i in e[2]]
            if got != fin[:len(got)]:
                bad.append(("not-completion-order|%s" % tag, "unordered generator of call %d yielded %r but batches completed in the order %r" % (c, got, fin)))
        if c in exhausted and sorted(got) != want:
            bad.append(("result-missing|%s" % tag, "exhausted generator of call %d yielded %r instead of all of %r" % (c, got, want)))
    if s in ("overlap", "with-exit-overlap"):
        second = [r for r in obs.steps if r["kind"] == "call" and r.get("call_no") == 2]
        finished_before = second[0].get("tasks_finished_before", {}).get(1, 0) if second else 0
        if finished_before >= n:
            pass   # every task of run 1 had completed: the run is over, accepting the call is fine
        elif 2 not in call_exc or call_exc[2][0] != "RuntimeError":
            bad.append(("overlap-not-rejected|%s" % tag, "calling the object during an unfinished run gave %r instead of RuntimeError" % (call_exc.get(2),)))
        if finished_before < n and any(cc == 2 for (cc, _i) in env.exec_log):
            bad.append(("overlap-ran-tasks|%s" % tag, "tasks of the rejected overlapping call were executed"))
        if 1 not in exhausted and s == "overlap":
            bad.append(("overlap-disturbed-first-run|%s" % tag, "the first run could not be exhausted after the rejected call"))
    for name, detail in env.inv_violations:
        bad.append(("%s|%s" % (name, tag), detail))
    if getattr(env.parallel, "_running", False):
        bad.append(("still-running|%s" % tag, "Parallel._running is True after the program ended"))
    return bad


def _work(unit):
    (c, bounds, max_execs), shard = unit
    cfg = to_scenario(c)
    st = PC.explore_config(cfg, bounds, judge, max_execs=max_execs, shard=shard)
    res = st.result()
    res["shard_nonzero"] = bool(shard and shard[0])
    res["sample"] = {"config": c, "bounds(pb,eb,ob,joint,joint_po)": list(bounds), "executions": st.execs,
                     "distinct_outcomes": len(st.outcomes)}
    return res


def plan(ctx):
    quick = ctx.tier == "quick"
    n = 4 if quick else 5
    configs = []
    for nj, bs, pre, ra in itertools.product(PC.N_JOBS, (1, 2), (1, "n_jobs", "2*n_jobs", "all"),
                                             ("generator", "generator_unordered")):
        base = dict(n_jobs=nj, batch_size=bs, pre_dispatch=pre, return_as=ra, n=n)
        configs.append(dict(base, script="exhaust"))
        configs.append(dict(base, script="prompt"))
        for k in ((0, 2) if quick else range(0, n)):
            for s in ("close", "drop", "overlap", "overlap-finished", "with-exit", "with-exit-overlap", "with-close"):
                for ab in ("drop", "zombie"):
                    if s in ("overlap", "with-exit-overlap", "overlap-finished") and ab == "zombie":
                        continue
                    configs.append(dict(base, script=s, k=k, abort=ab))
    items = []
    if quick:
        fields = ["n_jobs", "batch_size", "pre_dispatch", "return_as", "script"]
        # always: exhaust / prompt, and every abandonment script with the input already exhausted at the time of the
        # abandonment (pre_dispatch='all': nothing left to iterate, only work in flight), both generator flavours
        def is_must(c):
            return c["script"] in ("exhaust", "prompt") or (
                c["pre_dispatch"] == "all" and c["n_jobs"] == 2 and c["batch_size"] == 1 and c.get("abort", "drop") == "drop"
                and c["script"] in ("close", "drop", "with-exit", "with-close", "with-exit-overlap", "overlap-finished"))
        must = [c for c in configs if is_must(c)]
        others = [c for c in configs if not is_must(c)]
        cover, rest = PC.pairwise_cover(others, fields + ["k", "abort"])
        sel = must + cover + PC.rotate_slice(rest, ctx.seed, 30)
        for c in sel:
            items.append((c, (1, 1, 1, 2, 1), 60000))
    else:
        # every configuration at the quick bounds, the fixed-part configurations (see is_must) one level deeper
        def is_must(c):
            return c["script"] in ("exhaust", "prompt") or (
                c["pre_dispatch"] == "all" and c["n_jobs"] == 2 and c["batch_size"] == 1 and c.get("abort", "drop") == "drop")
        for c in configs:
            items.append((c, (1, 1, 2, 3, 2) if is_must(c) else (1, 1, 1, 2, 1), 400000))
    items.sort(key=lambda it: -len(to_scenario(it[0])["program"]))
    return PC.shard_items(items, lambda it: len(to_scenario(it[0])["program"]), 5 if quick else 2, nshards=4)


def run(ctx):
    items = plan(ctx)
    tot, outcomes, verdicts = PC.run_items(ctx, items, _work, sample_every=max(1, len(items) // 4))
    ctx.rule = ("consumer programs {exhaust; pull one by one under the withholding environment; close / drop / leave the "
                "with block after k results then a fresh call; second call during an unfinished run, also after leaving the with "
                "block with the generator still alive; second call once every task of the first run has completed but its results "
                "are only partly consumed} x return_as in "
                "{generator, generator_unordered} x n_jobs x batch_size x pre_dispatch x {pool-like, zombie} environment; all "
                "schedules within the bounds shown in samples. Promptness is judged at batch granularity. "
                "distinct_nontrivial = distinct outcomes")
    ctx.exhaustive = True
    ctx.assumptions += ["same environment model and granularity as C01",
                        "promptness = the result is reachable with no completion other than the batches containing tasks <= i (ordered) / with exactly as many completed tasks as results requested (unordered)"]
    return {"states": tot["states"], "transitions": tot["transitions"],
            "traces_validated_against_impl": tot["execs"], "evaluations": tot["execs"],
            "distinct_nontrivial": len(outcomes), "configurations": tot["configs"],
            "scheduling_points_executed": tot["points"], "verdicts": dict(verdicts)}


def replay(data):
    from .. import parharness as H
    cfg = data["cfg"]
    cfg["program"] = [tuple(s) for s in cfg["program"]]
    obs = H.run_scenario(cfg, data["choices"])
    obs2 = H.run_scenario(cfg, data["choices"])
    b, b2 = judge(cfg, obs), judge(cfg, obs2)
    print("replay verdict:", obs.verdict)
    for r in obs.steps:
        print("  step", PC._step_view(r))
    for line in PC.describe_switches(obs.sched):
        print("  ", line)
    if [x[0] for x in b] != [x[0] for x in b2]:
        print("HARNESS-ERROR: replay is not deterministic")
        return 2
    for sig, msg in b:
        print(sig, msg)
    if b:
        print("VIOLATION property=C16 replay=<this file>")
        return 1
    return 0
