"""C13 - BinaryZlibFile / BinaryGzipFile behave like a plain byte stream.

(a) closed explicit-state search (BFS to fixpoint) at scaled block sizes
    (compressor._BUFFER_SIZE rebound to 1..5), payload lengths 0..13;
(a') every operation sequence of length <= 3 without state merging at block size 4;
(b) real block size (8192), every operation sequence of length <= L over
    payloads around the block boundaries;
(c) write side: every chunk composition x level, decoded by stdlib zlib/gzip.
Reference model: bytes + position with clamping seeks.
"""

import collections
import gzip
import io
import itertools
import zlib

from .. import core

LEVEL = "model_checking"


class Ref:
    def __init__(s, d):
        s.d = d
        s.p = 0

    def read(s, n=-1):
        r = s.d[s.p:] if n < 0 else s.d[s.p:s.p + n]
        s.p += len(r)
        return r

    def readinto(s, n):
        return s.read(n)

    def readline(s):
        i = s.d.find(b"\n", s.p)
        e = len(s.d) if i < 0 else i + 1
        r = s.d[s.p:e]
        s.p = e
        return r

    def tell(s):
        return s.p

    def target(s, o, w=0):
        return o if w == 0 else s.p + o if w == 1 else len(s.d) + o

    def seek(s, o, w=0):
        s.p = min(s.target(o, w), len(s.d))
        return s.p


def apply_impl(f, op):
    if op[0] == "readinto":
        b = bytearray(op[1])
        n = f.readinto(b)
        return bytes(b[:n])
    return getattr(f, op[0])(*op[1:])


def apply_ref(r, op):
    if op[0] == "readinto":
        return r.readinto(op[1])
    return getattr(r, op[0])(*op[1:])


def canon(f):
    d = f._decompressor
    return (f._pos, f._size, f._mode, bytes(f._buffer), f._buffer_offset, f._fp.tell(),
            None if d is None else (d.eof, bytes(d.unused_data), bytes(d.unconsumed_tail)))


def payload(kind, L):
    if kind == "comp":
        return (b"ab\n" * (L // 3 + 1))[:L]
    if kind == "zeros":
        return b"\0" * L
    # deterministic incompressible bytes without newline
    out = bytearray()
    x = 0x2545F491
    while len(out) < L:
        x = (x * 1103515245 + 12345) & 0x7FFFFFFF
        b = (x >> 16) & 0xFF
        out.append(b if b != 10 else 11)
    if kind == "incomp-nl" and L > 2:
        out[L // 2] = 10
    return bytes(out)


def compress(clsname, data, level=3):
    import joblib.compressor as C
    cls = getattr(C, clsname)
    bio = io.BytesIO()
    w = cls(bio, "wb", compresslevel=level)
    w.write(data)
    w.close()
    return bio.getvalue()


def ops_for(L, scale):
    """Operation alphabet; scale=1 for tiny payloads, 8192 for the real block size."""
    if scale == 1:
        return [("read", 0), ("read", 1), ("read", 3), ("read", 4), ("read", 5), ("read", -1), ("read",),
                ("readinto", 2), ("readinto", 9), ("readline",), ("tell",),
                ("seek", 0), ("seek", 1), ("seek", 4), ("seek", max(L - 1, 0)), ("seek", L), ("seek", L + 5),
                ("seek", -1, 1), ("seek", 3, 1), ("seek", 0, 1), ("seek", 0, 2), ("seek", -1, 2), ("seek", -L, 2),
                ("seek", 2, 2)]
    B = 8192
    return [("read", 1), ("read", B - 1), ("read", B), ("read", B + 1), ("read", -1),
            ("readinto", B), ("readinto", 7), ("readline",), ("tell",),
            ("seek", 0), ("seek", B), ("seek", B + 1), ("seek", max(L - 1, 0)), ("seek", L + 5),
            ("seek", -1, 1), ("seek", B, 1), ("seek", 0, 2), ("seek", -B, 2), ("seek", -1, 2)]


def replay_history(clsname, comp, data, hist, bufsize, check=True):
    """Runs hist on a fresh real file object and the reference. Returns (f, r, mismatch or None)."""
    import joblib.compressor as C
    C._BUFFER_SIZE = bufsize
    cls = getattr(C, clsname)
    f = cls(io.BytesIO(comp), "rb")
    r = Ref(data)
    for i, op in enumerate(hist):
        try:
            with core.time_limit(3 if bufsize < 100 else 20):
                a = apply_impl(f, op)
        except core.Watchdog:
            return f, r, ("no-termination", i, "the operation did not return within %d s" % (3 if bufsize < 100 else 20))
        except Exception as e:  # noqa
            return f, r, ("exception", i, "%s: %s" % (type(e).__name__, e))
        b = apply_ref(r, op)
        if a != b:
            return f, r, ("result", i, "impl returned %r, reference %r" % (a if not isinstance(a, bytes) or len(a) < 40 else (len(a), a[:20]), b if not isinstance(b, bytes) or len(b) < 40 else (len(b), b[:20])))
        try:
            t = f.tell()
        except Exception as e:  # noqa
            return f, r, ("exception", i, "tell: %s" % e)
        if t != r.tell():
            return f, r, ("position", i, "impl position %r, reference %r" % (t, r.tell()))
    return f, r, None


def in_domain(r, op):
    if op[0] != "seek":
        return True
    return r.target(*op[1:]) >= 0


def _viol(kind, clsname, pk, L, bufsize, hist, mis, level=3):
    op = hist[mis[1]]
    sig = "read-side|%s|%s" % (mis[0], op[0] + ("/whence%d" % op[2] if len(op) == 3 else ""))
    msg = "%s over %d-byte %s payload (block size %d): after %s the operation %s disagrees with the byte stream: %s" % (
        clsname, L, pk, bufsize, [list(o) for o in hist[:mis[1]]], list(op), mis[2])
    return [sig, msg, {"part": kind, "cls": clsname, "payload": pk, "length": L, "bufsize": bufsize,
                       "history": [list(o) for o in hist[:mis[1] + 1]], "level": level}]


def work_closed(item):
    clsname, pk, L, bufsize, level = item
    data = payload(pk, L)
    comp = compress(clsname, data, level)
    ops = ops_for(L, 1)
    f, r, mis = replay_history(clsname, comp, data, [], bufsize)
    seen = {canon(f)}
    fr = collections.deque([[]])
    edges = 0
    viols = []
    maxdepth = 0
    while fr:
        h = fr.popleft()
        maxdepth = max(maxdepth, len(h))
        for op in ops:
            _, r0, _ = replay_history(clsname, comp, data, h, bufsize)
            if not in_domain(r0, op):
                continue
            h2 = h + [op]
            f2, _, mis = replay_history(clsname, comp, data, h2, bufsize)
            edges += 1
            if mis is not None:
                viols.append(_viol("closed", clsname, pk, L, bufsize, h2, mis, level))
                if len(viols) >= 8:
                    # the object is broken on this payload: no point in exploring further from broken states
                    return {"states": len(seen), "edges": edges, "viol": viols[:5], "depth": maxdepth, "execs": edges,
                            "cap": "stopped after 8 disagreements on one payload"}
                continue
            k = canon(f2)
            if k not in seen:
                seen.add(k)
                fr.append(h2)
            if len(seen) > 20000:
                return {"states": len(seen), "edges": edges, "viol": viols, "cap": "state cap 20000", "depth": maxdepth, "execs": edges}
    return {"states": len(seen), "edges": edges, "viol": viols[:5], "depth": maxdepth, "execs": edges,
            "sample": {"cls": clsname, "payload": pk, "length": L, "bufsize": bufsize, "states": len(seen), "edges": edges}}


def work_seq(item):
    clsname, pk, L, bufsize, depth, first_ops = item
    data = payload(pk, L)
    comp = compress(clsname, data, 3)
    scale = 1 if bufsize < 100 else 8192
    ops = ops_for(L, scale)
    viols = []
    n = 0
    nbad = 0
    steps = 0
    states = set()
    for first in first_ops:
        for rest in itertools.product(ops, repeat=depth - 1):
            hist = [ops[first]] + list(rest)
            # drop out-of-domain seeks (the sequence is cut there)
            r = Ref(data)
            cut = len(hist)
            for i, op in enumerate(hist):
                if not in_domain(r, op):
                    cut = i
                    break
                apply_ref(r, op)
            hist = hist[:cut]
            if not hist:
                continue
            f, _, mis = replay_history(clsname, comp, data, hist, bufsize)
            n += 1
            steps += len(hist)
            if mis is not None:
                v = _viol("seq", clsname, pk, L, bufsize, hist, mis)
                nbad += 1
                if len(viols) < 5:
                    viols.append(v)
                if nbad >= 8:
                    return {"states": len(states), "edges": steps, "viol": viols, "execs": n, "cap": "stopped after 8 disagreements on one payload"}
            else:
                states.add(canon(f)[:2] + canon(f)[4:6])
    return {"states": len(states), "edges": steps, "viol": viols, "execs": n}


CHUNKS = (1, 7, 8191, 8192, 8193)


def compositions(L, maxchunks):
    """All chunkings of L bytes into <= maxchunks chunks from CHUNKS followed by the rest."""
    out = []

    def rec(prefix, left):
        out.append(prefix + ([left] if left or not prefix else []))
        if len(prefix) >= maxchunks:
            return
        for c in CHUNKS:
            if c <= left:
                rec(prefix + [c], left - c)
    rec([], L)
    # dedupe
    seen = set()
    res = []
    for c in out:
        t = tuple(c)
        if t not in seen:
            seen.add(t)
            res.append(c)
    return res


def work_write(item):
    import joblib.compressor as C
    clsname, pk, L, level, maxchunks = item
    C._BUFFER_SIZE = 8192
    cls = getattr(C, clsname)
    data = payload(pk, L)
    viols = []
    n = 0
    for comp_i, chunks in enumerate(compositions(L, maxchunks)):
        bio = io.BytesIO()
        w = cls(bio, "wb", compresslevel=level)
        p = 0
        bad = None
        try:
            for j, c in enumerate(chunks):
                piece = data[p:p + c]
                ret = w.write(memoryview(piece) if j % 2 else piece)
                p += c
                if ret != len(piece) or w.tell() != p:
                    bad = "write returned %r / tell %r after %d bytes" % (ret, w.tell(), p)
                    break
            w.close()
            w.close()
            raw = bio.getvalue()
            dec = zlib.decompress(raw) if clsname == "BinaryZlibFile" else gzip.decompress(raw)
            if bad is None and dec != data:
                bad = "stdlib decoder returns %d bytes (first difference at %s) instead of the %d written" % (
                    len(dec), next((i for i, (x, y) in enumerate(zip(dec, data)) if x != y), min(len(dec), len(data))), len(data))
        except Exception as e:  # noqa
            bad = "%s: %s" % (type(e).__name__, e)
        n += 1
        if bad and len(viols) < 3:
            viols.append(["write-side|%s" % ("decode" if "decoder" in bad or "Error" in bad else "return"),
                          "%s level %d writing %d-byte %s payload in chunks %s: %s" % (clsname, level, L, pk, chunks, bad),
                          {"part": "write", "cls": clsname, "payload": pk, "length": L, "level": level, "chunks": chunks}])
    return {"states": 0, "edges": n, "viol": viols, "execs": n, "write": n}


def run(ctx):
    quick = ctx.tier == "quick"
    items = []
    classes = ("BinaryZlibFile", "BinaryGzipFile")
    # (a) closed search
    bufsizes = (1, 2, 4, 5) if quick else (1, 2, 3, 4, 5, 7, 16)
    for cls in classes:
        for L in range(0, 14):
            for pk in ("comp", "incomp", "incomp-nl"):
                for bs in bufsizes:
                    items.append(("closed", (cls, pk, L, bs, 3)))
        if not quick:
            for L in (5, 9, 13):
                for lvl in (1, 9):
                    items.append(("closed", (cls, "comp", L, 4, lvl)))
    nops = len(ops_for(5, 1))
    # (a') unmerged short sequences at block size 4
    for cls in classes:
        for pk, L in (("comp", 9), ("incomp-nl", 13), ("incomp", 4)) if quick else (
                ("comp", 9), ("incomp-nl", 13), ("incomp", 4), ("comp", 0), ("comp", 1), ("incomp", 5), ("comp", 13)):
            for first in range(nops):
                items.append(("seq", (cls, pk, L, 4, 3, (first,))))
    # (b) real block size
    depth = 3 if quick else 4
    nops_b = len(ops_for(8192, 8192))
    big = (0, 1, 8191, 8192, 8193, 16385) if quick else (0, 1, 8191, 8192, 8193, 16384, 16385, 3 * 8192 + 7)
    for cls in classes:
        for L in big:
            for pk in (("comp", "incomp-nl") if not quick else (("comp",) if L % 2 else ("incomp-nl",))):
                for first in range(nops_b):
                    items.append(("seq", (cls, pk, L, 8192, depth, (first,))))
    # (c) write side
    levels = (1, 3, 6, 9) if quick else tuple(range(1, 10))
    maxchunks = 3 if quick else 5
    for cls in classes:
        for L in (0, 1, 8191, 8192, 8193, 16385, 3 * 8192 + 7):
            for pk in ("comp", "incomp"):
                for lvl in levels:
                    items.append(("write", (cls, pk, L, lvl, maxchunks)))
    if ctx.only:
        items = [it for it in items if it[0] == ctx.only]
    tot = collections.Counter()
    closed_done = 0
    nviol = 0
    for kind, res in core.pmap(_dispatch, items, chunksize=1):
        nviol += len(res["viol"])
        if nviol >= 60:
            ctx.cap("stopped early: 60 disagreements reported, the remaining work items were not run")
            for v in res["viol"]:
                ctx.violation(*v)
            break
        tot[kind + "_states"] += res["states"]
        tot[kind + "_edges"] += res["edges"]
        tot[kind + "_execs"] += res["execs"]
        tot[kind + "_items"] += 1
        if "cap" in res:
            ctx.cap(res["cap"])
        if kind == "closed":
            closed_done += 1
            tot["closed_maxdepth"] = max(tot["closed_maxdepth"], res.get("depth", 0))
            if "sample" in res and closed_done % 40 == 1:
                ctx.sample(res["sample"])
        for v in res["viol"]:
            ctx.violation(*v)
    ctx.sample({"seq_example": [["seek", 8193], ["read", 8191], ["seek", -1, 2]], "write_example": compositions(8193, 2)[:6]})
    ctx.rule = ("(a) BFS to fixpoint over a %d-operation alphabet on the real file object at block sizes %s, payload "
                "lengths 0..13 x 3 kinds x zlib/gzip, states merged on (pos, size, mode, buffer bytes, offset, input "
                "position, decompressor eof/unused/unconsumed); (a') all length-3 sequences unmerged at block size 4; "
                "(b) all sequences of length <= %d over %d operations at the real 8192 block size on payloads %s; "
                "(c) all chunkings into <= %d chunks from %s + rest x levels %s, decoded by zlib/gzip.decompress. Every "
                "edge compared with the bytes+position reference; seeks before the start are outside the domain."
                % (nops, list(bufsizes), depth, nops_b, list(big), maxchunks, list(CHUNKS), list(levels)))
    ctx.exhaustive = True
    ctx.assumptions += ["block size scaled by rebinding compressor._BUFFER_SIZE (module attribute, no source change)",
                        "stdlib zlib/gzip/io.BytesIO are the trusted reference"]
    states = tot["closed_states"] + tot["seq_states"]
    trans = tot["closed_edges"] + tot["seq_edges"] + tot["write_edges"]
    execs = tot["closed_execs"] + tot["seq_execs"] + tot["write_execs"]
    return {"states": states, "transitions": trans, "traces_validated_against_impl": execs,
            "evaluations": execs, "distinct_nontrivial": states,
            "closed_search_states": tot["closed_states"], "closed_search_edges": tot["closed_edges"],
            "closed_search_configs": tot["closed_items"], "closed_search_max_depth": tot["closed_maxdepth"],
            "sequence_executions": tot["seq_execs"], "write_compositions": tot["write_execs"]}


def _dispatch(item):
    kind, arg = item
    fn = {"closed": work_closed, "seq": work_seq, "write": work_write}[kind]
    return kind, fn(arg)


def replay(data):
    if data["part"] == "write":
        res = work_write((data["cls"], data["payload"], data["length"], data["level"], 5))
        bad = [v for v in res["viol"]]
        print(bad[:1])
        if bad:
            print("VIOLATION property=C13 replay=<this file>")
            return 1
        return 0
    pl = payload(data["payload"], data["length"])
    comp = compress(data["cls"], pl, data.get("level", 3))
    hist = [tuple(o) for o in data["history"]]
    _, _, mis = replay_history(data["cls"], comp, pl, hist, data["bufsize"])
    print("history", hist, "->", mis)
    if mis:
        print("VIOLATION property=C13 replay=<this file>")
        return 1
    return 0
