"""C06 - Memory serves repeated calls from cache whatever the equivalent call form.

Bounded-exhaustive through the real Memory: for every signature (<= n parameters; plain
function, bound method, async def, functools.partial) and every target binding, ALL call
forms that Python binds identically (positional <-> keyword, defaults omitted <-> spelled out,
surplus keywords in both orders, dict / set arguments rebuilt in other insertion orders) are
issued against one cache directory; an execution counter kept by the function body and
check_call_in_cache are the oracle.  Plus ignore lists, eviction (clear / reduce_size) and a
fresh forked process for the second half of the forms.
"""

import asyncio
import inspect
import itertools
import os
import shutil

from .. import core, memgen, sigs

LEVEL = "exploration"

_MOD = None
_SIGS = None
_N = None
_LOOP = None


def _setup(n):
    global _MOD, _SIGS, _N
    _N = n
    _SIGS = sigs.enumerate_signatures(n)
    d = core.scratch_dir("c06mod")
    _MOD = memgen.make_module(d, _SIGS, modname="vf_memgen_mod6")


def _loop():
    global _LOOP
    if _LOOP is None:
        _LOOP = asyncio.new_event_loop()
    return _LOOP


def do_call(kind, f, args, kwargs):
    if kind == "async":
        return _loop().run_until_complete(f(*args, **kwargs))
    return f(*args, **kwargs)


def bindings_and_forms(s, fn):
    """{binding key: [ (args, kwargs, form tag) ... ]} - forms grouped by what Python binds."""
    # reference binding = the interpreter itself on a shadow function with the same parameter list returning
    # locals() (CPython 3.12's Signature.bind rejects a keyword named like a defaulted positional-only parameter
    # that Python routes to **kwargs)
    is_method = inspect.ismethod(fn)

    def shadow(*a, **k):
        loc = sigs.interpreter_binding(s, a, k, method=is_method)
        if loc is None:
            raise TypeError("rejected by the interpreter")
        return loc
    names = sigs.param_names(s)
    kinds = [k for k, _ in s]
    defaulted = [names[i] for i, (k, d) in enumerate(s) if d]
    groups = {}
    for dflt_choice in itertools.product((False, True), repeat=len(defaulted)):
        use_default = dict(zip(defaulted, dflt_choice))

        def val(name):
            if use_default.get(name):
                return ("d", name)
            return ("v", name)

        for shape in sigs.call_shapes(s, surplus_pos=1, surplus_kw=2):
            npos, kws = shape
            pos_params = [names[i] for i, k in enumerate(kinds) if k in ("po", "pk")]
            args = []
            for i in range(npos):
                if i < len(pos_params):
                    args.append(val(pos_params[i]))
                else:
                    args.append(("p", i))
            kwargs = {}
            for k in kws:
                kwargs[k] = val(k) if k in names and kinds[names.index(k)] in ("pk", "ko") else ("x", k)
            try:
                loc = shadow(*args, **kwargs)
            except TypeError:
                continue
            # canonical binding
            key_items = []
            for pn, pk in zip(names, kinds):
                pv = loc[pn]
                if pk == "vk":
                    pv = tuple(sorted(pv.items()))
                key_items.append((pn, pv))
            key = repr(key_items)
            # a form that passes a defaulted parameter explicitly while the target is 'v' etc. is fine:
            tag = "npos=%d kw=%s" % (npos, ",".join(kws))
            groups.setdefault(key, [])
            if not any(t == tag for (_a, _k, t) in groups[key]):
                groups[key].append((tuple(args), kwargs, tag))
    return groups


def form_difference(f0, f1):
    a0, k0, _ = f0
    a1, k1, _ = f1
    if len(a0) != len(a1):
        if set(k0) == set(k1):
            return "default-omitted-vs-positional"
        return "positional-vs-keyword"
    if set(k0) != set(k1):
        return "default-omitted-vs-keyword"
    if list(k0) != list(k1):
        return "keyword-order"
    return "same-form"


def _work(item):
    tier, kind, idxs = item
    import joblib
    import joblib.memory as M
    import logging
    logging.disable(logging.CRITICAL)
    root = core.scratch_dir("c06-%d" % os.getpid())
    n = 0
    groups_n = 0
    viols = {}
    COUNT = _MOD.COUNT

    def bad(key, msg, rp):
        if key not in viols:
            viols[key] = [key, msg, rp]

    for idx in idxs:
        s = _SIGS[idx]
        fn = memgen.get_callable(_MOD, kind, idx)
        cname = memgen.counter_name(kind, idx)
        rp0 = {"kind": kind, "sig_index": idx, "signature": sigs.sig_label(s), "n_params": _N}
        groups = bindings_and_forms(s, fn)
        gi = 0
        for key, forms in groups.items():
            gi += 1
            groups_n += 1
            loc = os.path.join(root, "c")
            shutil.rmtree(loc, ignore_errors=True)
            M._FUNCTION_HASHES.clear()
            mem = joblib.Memory(loc, verbose=0)
            cf = mem.cache(fn)
            expected = do_call(kind, fn, forms[0][0], dict(forms[0][1]))
            in_child = (gi + idx) % 3 == 0 and len(forms) > 2
            half = len(forms) // 2 if in_child else len(forms)
            results = []
            for j, (args, kwargs, tag) in enumerate(forms[:half]):
                results.append(_one(kind, cf, cname, args, kwargs))
            if in_child:
                res = core.run_isolated(_child_forms, (kind, idx, loc, [(a, k) for a, k, _t in forms[half:]]), timeout=60)
                if res[0] != "ok":
                    bad("fresh-process-fails|%s" % kind, "second half of the forms in a fresh process: %r" % (res,), rp0)
                else:
                    results += [tuple(r) for r in res[1]]
            for j, r in enumerate(results):
                n += 1
                args, kwargs, tag = forms[j]
                inc, executed, value = r[0], r[1], _untuple(r[2])
                diff = "first-call" if j == 0 else form_difference(forms[0], forms[j])
                where = "fresh-process" if j >= half else "same-process"
                rp = dict(rp0, binding=key, form=tag, first_form=forms[0][2])
                if isinstance(value, tuple) and value and value[0] == "EXC":
                    bad("raises:%s|%s|%s" % (value[1], kind, diff), "%s def f%s called as (%s) raised %s: %s" % (kind, sigs.sig_label(s), tag, value[1], value[2]), rp)
                    continue
                if value != expected:
                    bad("wrong-value|%s|%s" % (kind, diff), "%s def f%s called as (%s) returned %r, expected %r" % (kind, sigs.sig_label(s), tag, value, expected), rp)
                want_exec = 1 if j == 0 else 0
                if executed != want_exec:
                    bad("%s|%s|%s|%s" % ("re-executed" if executed else "not-executed", kind, diff, where),
                        "%s def f%s: after the call (%s), the equivalent call (%s) executed the body %d time(s) [%s]" % (
                            kind, sigs.sig_label(s), forms[0][2], tag, executed, where), rp)
                if bool(inc) != (executed == 0):
                    bad("check_call_in_cache-mismatch|%s|%s" % (kind, diff),
                        "%s def f%s: check_call_in_cache(%s) answered %r but the following identical call executed the body %d time(s)" % (
                            kind, sigs.sig_label(s), tag, inc, executed), rp)
            # eviction: after clear / reduce_size the call must execute again
            if gi % 3 == 0:
                mem.clear(warn=False)
                how = "clear"
                cf2 = mem.cache(fn)
            elif gi % 3 == 1:
                mem.reduce_size(items_limit=0)
                how = "reduce_size(items_limit=0)"
                cf2 = mem.cache(fn)
            else:
                # the cached function's own clear(), the same wrapper object keeps being used
                cf.clear(warn=False)
                how = "f.clear()"
                cf2 = cf
            r = _one(kind, cf2, cname, forms[0][0], forms[0][1])
            n += 1
            if r[1] != 1 or r[0]:
                bad("served-after-eviction|%s|%s" % (kind, how.split("(")[0]),
                    "%s def f%s: after %s the call (%s) executed %d time(s), check_call_in_cache said %r" % (kind, sigs.sig_label(s), how, forms[0][2], r[1], r[0]), rp0)
            # ... and the entry written after the eviction is a completed call like any other: a fresh process is served
            if (gi % 3 == 2 or gi % 4 == 0) and kind != "partial":
                res = core.run_isolated(_child_forms, (kind, idx, loc, [(forms[-1][0], forms[-1][1])]), timeout=60)
                n += 1
                if res[0] != "ok":
                    bad("fresh-process-fails|%s" % kind, "call in a fresh process after %s + call: %r" % (how, res), rp0)
                else:
                    inc, executed, value = res[1][0][0], res[1][0][1], _untuple(res[1][0][2])
                    if executed != 0 or not inc or value != expected:
                        bad("re-executed|%s|after-%s|fresh-process" % (kind, how.split("(")[0]),
                            "%s def f%s: %s, then the call (%s) [executed, stored]; a fresh process repeating it as (%s): check_call_in_cache=%r, executed %d time(s), value %r" % (
                                kind, sigs.sig_label(s), how, forms[0][2], forms[-1][2], inc, executed, value), rp0)
        # ignore lists and order-insensitive arguments (not for partial: not inspected by design, reported above)
        names = sigs.param_names(s)
        kinds_ = [k for k, _ in s]
        for pi, pname in enumerate(names):
            pk = kinds_[pi]
            if pk in ("va", "vk"):
                continue
            # a form that passes pname explicitly
            base_a, base_k = _explicit_form(s, pname)
            if base_a is None:
                continue
            try:
                inspect.signature(fn).bind(*base_a, **base_k)
            except TypeError:
                continue
            for variant in ("ignore", "dict-order", "set-order"):
                loc = os.path.join(root, "i")
                shutil.rmtree(loc, ignore_errors=True)
                M._FUNCTION_HASHES.clear()
                mem = joblib.Memory(loc, verbose=0)
                if variant == "ignore":
                    if kind == "partial":
                        continue
                    cf = mem.cache(fn, ignore=[pname])
                    v1, v2 = ("v", pname), ("other", pname)
                elif variant == "dict-order":
                    cf = mem.cache(fn)
                    v1 = {"a": 1, "b": 2, "c": (3,)}
                    v2 = {"c": (3,), "b": 2, "a": 1}
                else:
                    cf = mem.cache(fn)
                    v1 = set(["x", "y", ("z", 1), 5])
                    v2 = set([5, ("z", 1), "y", "x"])
                a1, k1 = _subst(base_a, base_k, pname, v1)
                a2, k2 = _subst(base_a, base_k, pname, v2)
                r1 = _one(kind, cf, cname, a1, k1)
                r2 = _one(kind, cf, cname, a2, k2)
                n += 2
                rp = dict(rp0, variant=variant, param=pname)
                for r in (r1, r2):
                    v = r[2]
                    if isinstance(v, tuple) and v and v[0] == "EXC":
                        bad("raises:%s|%s|%s" % (v[1], kind, variant), "%s def f%s (%s on %s) raised %s: %s" % (kind, sigs.sig_label(s), variant, pname, v[1], v[2]), rp)
                if r1[1] != 1 or r2[1] != 0 or not r2[0]:
                    bad("re-executed|%s|%s" % (kind, variant),
                        "%s def f%s: %s on parameter %s: first call executed %d, equivalent second call executed %d (check_call_in_cache %r)" % (
                            kind, sigs.sig_label(s), variant, pname, r1[1], r2[1], r2[0]), rp)
                if variant == "ignore":
                    # changing a NON-ignored parameter must execute again
                    others = [nm for nm, kk in zip(names, kinds_) if nm != pname and kk not in ("va", "vk")]
                    for on in others[:1]:
                        oa, ok_ = _explicit_form(s, on, also=pname)
                        if oa is None:
                            continue
                        try:
                            inspect.signature(fn).bind(*oa, **ok_)
                        except TypeError:
                            continue
                        x1 = _one(kind, cf, cname, *_subst(oa, ok_, on, ("v", on)))
                        x2 = _one(kind, cf, cname, *_subst(oa, ok_, on, ("changed", on)))
                        n += 2
                        if x2[1] != 1:
                            bad("ignored-too-much|%s" % kind, "%s def f%s with ignore=[%r]: changing %r did not execute the body again" % (kind, sigs.sig_label(s), pname, on), rp)
    shutil.rmtree(root, ignore_errors=True)
    return {"n": n, "groups": groups_n, "viol": list(viols.values())}


def _explicit_form(s, pname, also=None):
    """A call form passing every parameter without default and `pname` (and `also`) explicitly."""
    names = sigs.param_names(s)
    kinds = [k for k, _ in s]
    args = []
    kwargs = {}
    need = {pname, also}
    last_pos = -1
    for i, (k, d) in enumerate(s):
        if k in ("po", "pk") and (not d or names[i] in need):
            last_pos = i
    for i, (k, d) in enumerate(s):
        nm = names[i]
        if k in ("po", "pk"):
            if i <= last_pos:
                args.append(("v", nm))
        elif k == "ko":
            if not d or nm in need:
                kwargs[nm] = ("v", nm)
    return tuple(args), kwargs


def _subst(args, kwargs, pname, value):
    args = list(args)
    kwargs = dict(kwargs)
    hit = False
    for i, a in enumerate(args):
        if a == ("v", pname):
            args[i] = value
            hit = True
    if pname in kwargs:
        kwargs[pname] = value
        hit = True
    return tuple(args), kwargs


def _one(kind, cf, cname, args, kwargs):
    COUNT = _MOD.COUNT
    try:
        inc = cf.check_call_in_cache(*args, **kwargs)
    except Exception as e:  # noqa
        inc = None
    before = COUNT.get(cname, 0)
    try:
        with core.time_limit(60):
            v = do_call(kind, cf, args, dict(kwargs))
    except core.Watchdog:
        v = ("EXC", "NoTermination", "the cached call did not return within 60 s")
    except Exception as e:  # noqa
        v = ("EXC", type(e).__name__, str(e)[:150])
    return (inc, COUNT.get(cname, 0) - before, v)


def _child_forms(arg):
    kind, idx, loc, forms = arg
    import joblib
    import joblib.memory as M
    global _LOOP
    _LOOP = None
    M._FUNCTION_HASHES.clear()
    fn = memgen.get_callable(_MOD, kind, idx)
    cf = joblib.Memory(loc, verbose=0).cache(fn)
    cname = memgen.counter_name(kind, idx)
    return [_one(kind, cf, cname, a, k) for a, k in forms]



# -- several cache directories / several processes -----------------------------------------------
# Histories in which a process meets a function's source already stored (it only READS func_code.py) before it
# stores results somewhere else, or re-stores them after somebody else cleared the directory.

def _phase(arg):
    """One process life: a list of steps on (location, action)."""
    kind, idx, steps = arg
    import joblib
    import joblib.memory as M
    global _LOOP
    _LOOP = None
    M._FUNCTION_HASHES.clear()
    fn = memgen.get_callable(_MOD, kind, idx)
    cname = memgen.counter_name(kind, idx)
    cfs = {}
    out = []
    for loc, action in steps:
        if loc not in cfs:
            cfs[loc] = joblib.Memory(loc, verbose=0).cache(fn)
        if action == "call":
            out.append(list(_one(kind, cfs[loc], cname, (("v", "a"),) * _nreq(idx), {})))
        elif action == "clear-by-other-process":
            r = core.run_isolated(_clear_loc, loc, timeout=60)
            out.append(["cleared", r[0]])
    return out


def _clear_loc(loc):
    import joblib
    joblib.Memory(loc, verbose=0).clear(warn=False)
    return True


def _nreq(idx):
    return sum(1 for k, d in _SIGS[idx] if k in ("po", "pk") and not d)


def multi_location(ctx):
    root = core.scratch_dir("c06ml")
    n = 0
    # signatures callable with positionals only and no keyword-only parameter without default
    idxs = [i for i, s in enumerate(_SIGS) if all(d or k in ("po", "pk", "va", "vk") for k, d in s)][:12]
    for kind in ("func", "method", "async"):
        for idx in idxs:
            A = os.path.join(root, "A")
            B = os.path.join(root, "B")
            for name, lives in (
                    ("second-location-after-reading-the-first", [[(A, "call")], [(A, "call"), (B, "call")], [(B, "call")]]),
                    ("restored-after-clear-by-another-process", [[(A, "call")], [(A, "call"), (A, "clear-by-other-process"), (A, "call")], [(A, "call")]])):
                shutil.rmtree(root, ignore_errors=True)
                os.makedirs(root)
                res = None
                for life in lives:
                    res = core.run_isolated(_phase, (kind, idx, life), timeout=120)
                    if res[0] != "ok":
                        break
                n += 1
                rp = {"part": "multi-location", "kind": kind, "sig_index": idx, "history": name, "n_params": _N}
                if res[0] != "ok":
                    ctx.violation("multi-location|process-failed|%s" % kind, "%s: %r" % (name, res), rp)
                    continue
                inc, executed, value = res[1][-1]
                if executed != 0 or not inc:
                    ctx.violation("re-executed|%s|%s|fresh-process" % (kind, name),
                                  "%s def f%s, history '%s' (one process life per bracket: %r): the last call - a repetition of a completed, never evicted call "
                                  "- gave check_call_in_cache=%r and executed the body %d time(s)" % (kind, sigs.sig_label(_SIGS[idx]), name,
                                                                                                    [[(os.path.basename(l), a) for l, a in life] for life in lives], inc, executed), rp)
    shutil.rmtree(root, ignore_errors=True)
    return n

# -- parameter names -------------------------------------------------------------------------
# "every call that the plain function accepts is accepted by the cached wrapper": the wrapper forwards the
# user's keywords through joblib functions that have named parameters of their own.  Alphabet = every
# identifier joblib itself uses as a parameter name in the modules on the cached-call path.

def joblib_parameter_names():
    import keyword
    import joblib.memory
    import joblib.func_inspect
    import joblib._store_backends
    import joblib.hashing
    import joblib.logger
    names = set()
    for mod in (joblib.memory, joblib.func_inspect, joblib._store_backends, joblib.hashing, joblib.logger):
        objs = []
        for o in vars(mod).values():
            if inspect.isfunction(o) and o.__module__ == mod.__name__:
                objs.append(o)
            elif inspect.isclass(o) and o.__module__ == mod.__name__:
                objs += [m for m in vars(o).values() if inspect.isfunction(m)]
        for f in objs:
            co = f.__code__
            names.update(co.co_varnames[:co.co_argcount + co.co_kwonlyargcount + bool(co.co_flags & 4) + bool(co.co_flags & 8)])
    return sorted(n for n in names if n.isidentifier() and not keyword.iskeyword(n))


NAME_SHAPES = ("first", "kwonly", "varkw")


def _names_source(names):
    out = ["COUNT = {}\n\n"]
    for i, nm in enumerate(names):
        out.append("def a%d(%s, y=2):\n    COUNT['a%d'] = COUNT.get('a%d', 0) + 1\n    return ('a', %s, y)\n\n" % (i, nm, i, i, nm))
        out.append("def b%d(x, *, %s):\n    COUNT['b%d'] = COUNT.get('b%d', 0) + 1\n    return ('b', x, %s)\n\n" % (i, nm, i, i, nm))
        out.append("def c%d(x, **kw):\n    COUNT['c%d'] = COUNT.get('c%d', 0) + 1\n    return ('c', x, sorted(kw.items()))\n\n" % (i, i, i))
    return "".join(out)


def _work_names(item):
    tier, names, lo, hi = item
    import contextlib
    import io
    import joblib
    import logging
    import warnings
    logging.disable(logging.CRITICAL)
    warnings.simplefilter("ignore")
    root = core.scratch_dir("c06n-%d" % os.getpid())
    modname = "vf_c06_names_%d" % lo
    path = os.path.join(root, modname + ".py")
    with open(path, "w") as f:
        f.write(_names_source(names))
    mod = memgen.load_module(path, modname)
    n = 0
    viols = {}
    sink = io.StringIO()
    for i in range(lo, hi):
        nm = names[i]
        for shape, fname in zip(NAME_SHAPES, ("a%d" % i, "b%d" % i, "c%d" % i)):
            fn = getattr(mod, fname)
            pos = (7,) if shape != "first" else ()
            kw = {nm: 1}
            want = fn(*pos, **kw)
            for verbose in (0, 1, 50):
                for api in ("__call__", "call_and_shelve", "call", "check_call_in_cache"):
                    loc = os.path.join(root, "cache-%d-%s-%d-%s" % (i, shape, verbose, api))
                    mem = joblib.Memory(loc, verbose=verbose)
                    cf = mem.cache(fn)
                    steps = []
                    try:
                        with contextlib.redirect_stdout(sink), contextlib.redirect_stderr(sink):
                            mod.COUNT[fname] = 0
                            if api == "__call__":
                                steps.append("cold call")
                                got = cf(*pos, **kw)
                                steps.append("warm call")
                                got2 = cf(*pos, **kw)
                            elif api == "call_and_shelve":
                                steps.append("cold call_and_shelve")
                                got = cf.call_and_shelve(*pos, **kw).get()
                                steps.append("warm call_and_shelve")
                                got2 = cf.call_and_shelve(*pos, **kw).get()
                            elif api == "call":
                                steps.append("call")
                                got = cf.call(*pos, **kw)
                                got = got[0] if isinstance(got, tuple) and len(got) == 2 and isinstance(got[1], dict) else got
                                steps.append("call after call()")
                                got2 = cf(*pos, **kw)
                            else:
                                steps.append("check_call_in_cache before")
                                before = cf.check_call_in_cache(*pos, **kw)
                                steps.append("cold call")
                                got = cf(*pos, **kw)
                                steps.append("check_call_in_cache after")
                                after = cf.check_call_in_cache(*pos, **kw)
                                got2 = got
                                if before is not False or after is not True:
                                    raise AssertionError("check_call_in_cache answered %r before and %r after the call" % (before, after))
                            execs = mod.COUNT[fname]
                            # a damaged entry: the load failure path formats the call for its warning
                            if api == "__call__":
                                for r_, _d, files in os.walk(loc):
                                    if "output.pkl" in files:
                                        with open(os.path.join(r_, "output.pkl"), "wb") as f:
                                            f.write(b"\x80")
                                steps.append("call on a damaged entry")
                                got3 = cf(*pos, **kw)
                                if got3 != want:
                                    raise AssertionError("damaged entry: returned %r" % (got3,))
                    except BaseException as e:  # noqa
                        n += 1
                        sig = "call-rejected:%s|%s|parameter-named-%s" % (type(e).__name__, api, nm)
                        if sig not in viols:
                            call = "%s(%s%s=1)" % (fname, "7, " if pos else "", nm)
                            viols[sig] = [sig, "the plain function accepts %s (%s parameter named %r) but the cached wrapper fails at step '%s' "
                                               "(Memory(verbose=%d)): %s: %s" % (call, shape, nm, steps[-1] if steps else "?", verbose, type(e).__name__, str(e)[:200]),
                                          {"part": "names", "name": nm, "shape": shape, "verbose": verbose, "api": api}]
                        continue
                    finally:
                        sink.seek(0)
                        sink.truncate()
                    n += 1
                    if got != want or got2 != want:
                        sig = "wrong-value|%s|parameter-named-%s" % (api, nm)
                        viols.setdefault(sig, [sig, "%s with %s=1: returned %r / %r instead of %r" % (fname, nm, got, got2, want),
                                               {"part": "names", "name": nm, "shape": shape, "verbose": verbose, "api": api}])
                    elif execs != 1:
                        sig = "re-executed|%s|parameter-named-%s" % (api, nm)
                        viols.setdefault(sig, [sig, "%s with %s=1: %d executions for two identical calls" % (fname, nm, execs),
                                               {"part": "names", "name": nm, "shape": shape, "verbose": verbose, "api": api}])
                    shutil.rmtree(loc, ignore_errors=True)
    shutil.rmtree(root, ignore_errors=True)
    return {"n": n, "groups": (hi - lo) * 3, "viol": list(viols.values()), "names": hi - lo}


def _dispatch(item):
    if item[0] == "names":
        return _work_names(item[1])
    return _work(item)


def _untuple(x):
    if isinstance(x, list):
        return tuple(_untuple(e) for e in x)
    return x


def run(ctx):
    quick = ctx.tier == "quick"
    _setup(4 if quick else 5)
    idxs = list(range(len(_SIGS)))
    items = []
    nchunk = 16 if quick else 48
    for kind in memgen.KINDS:
        for c in range(nchunk):
            sub = idxs[c::nchunk]
            if sub:
                items.append((ctx.tier, kind, sub))
    names = joblib_parameter_names()
    step = max(1, (len(names) + 15) // 16)
    for lo in range(0, len(names), step):
        items.append(("names", (ctx.tier, names, lo, min(len(names), lo + step))))
    n = g = 0
    for res in core.pmap(_dispatch, items):
        n += res["n"]
        g += res["groups"]
        for v in res["viol"]:
            ctx.violation(*v)
    n += multi_location(ctx)
    ctx.rule = ("every signature with <= %d parameters x {plain function, bound method, functools.partial, async def}; for every target "
                "binding (each defaulted parameter at its default or not, 0-1 surplus positionals, 0-2 surplus keywords) ALL call forms "
                "that Signature.bind maps to that binding, issued one after the other on one cache directory (second half in a fresh "
                "forked process for every third group); then clear() / reduce_size(items_limit=0) / f.clear() and the call again, repeated in a fresh process; ignore=[p] for "
                "every named parameter (ignored value changed: no execution; other parameter changed: execution); dict and set "
                "arguments rebuilt in another insertion order. Several directories / processes: a process that only READS the stored "
                "source in one directory before storing results in a second one, or re-stores a result after another process cleared the "
                "directory, followed by a fresh process repeating the call. Parameter names: every identifier joblib uses as a parameter name in "
                "memory / func_inspect / _store_backends / hashing / logger (%d names) x {first parameter, keyword-only parameter, key "
                "received by **kw} passed by keyword x Memory(verbose 0/1/50) x {__call__, call_and_shelve, call, check_call_in_cache} "
                "incl. a call on a damaged entry. evaluations = cached calls judged; distinct_nontrivial = binding groups"
                % (_N, len(names)))
    ctx.exhaustive = True
    ctx.sample({"kind": "func", "signature": "def f(a, b=D, *, c=D)", "binding": "a=v b=default c=v",
                "equivalent_forms": ["f(v, c=v)", "f(v, d_b, c=v)", "f(a=v, c=v)", "f(v, b=d_b, c=v)", "f(c=v, a=v)"]})
    ctx.assumptions += ["execution counter kept by the generated function bodies (same process or returned through the forked child)",
                        "equivalent = identical inspect.Signature.bind(...).arguments after apply_defaults"]
    return {"evaluations": n, "distinct_nontrivial": g, "signatures": len(_SIGS), "kinds": len(memgen.KINDS),
            "parameter_names": len(names)}


def replay(data):
    if data.get("part") == "multi-location":
        _setup(data["n_params"])

        class _C:
            def __init__(self):
                self.v = []

            def violation(self, sig, msg, rp):
                self.v.append((sig, msg))
        c = _C()
        multi_location(c)
        for sig, msg in c.v:
            print(sig, msg)
        if c.v:
            print("VIOLATION property=C06 replay=<this file>")
            return 1
        return 0
    if data.get("part") == "names":
        names = joblib_parameter_names()
        i = names.index(data["name"])
        res = _work_names(("thorough", names, i, i + 1))
        for v in res["viol"]:
            print(v[0], v[1])
        if res["viol"]:
            print("VIOLATION property=C06 replay=<this file>")
            return 1
        return 0
    _setup(data["n_params"])
    res = _work(("thorough", data["kind"], [data["sig_index"]]))
    for v in res["viol"]:
        print(v[0], v[1])
    if res["viol"]:
        print("VIOLATION property=C06 replay=<this file>")
        return 1
    return 0
