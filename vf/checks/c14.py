"""C14 - truncated or over-long files make load fail cleanly: never hang, never lie.

Fault enumeration: for every (object, compressor, level, protocol) file every truncation
length (files <= 4 KiB) or every length in boundary windows (larger files), every suffix
from a fixed menu; the same damage on output.pkl of a Memory entry.  Termination is
decided by a no-progress monitor on BinaryZlibFile._fill_buffer (sys.monitoring LINE
events), a step budget, RLIMIT_AS and a wall-clock back-stop.
"""

import io
import os
import pickle
import resource
import signal
import sys
import time

from .. import core

LEVEL = "fault_enumeration"


class Hang(BaseException):
    pass


class Watchdog(BaseException):
    pass


# -- objects -----------------------------------------------------------------

def _rand_bytes(n, seed=7):
    out = bytearray()
    x = seed
    while len(out) < n:
        x = (x * 1103515245 + 12345) & 0x7FFFFFFF
        out.append((x >> 16) & 0xFF)
    return bytes(out)


class Pt:
    def __init__(self, x, y):
        self.x = x
        self.y = y

    def __eq__(self, o):
        return type(o) is Pt and (o.x, o.y) == (self.x, self.y)

    def __repr__(self):
        return "Pt(%r, %r)" % (self.x, self.y)


def objects(tier):
    objs = [
        ("small-dict", {"a": [1, 2.5, None], "b": ("x", b"y"), 3: True}),
        ("str", "hello world " * 3),
        ("nested", [[1, [2, [3, [4]]]], {"k": {"k": {"k": ()}}}, Pt(1, "two")]),
        ("bytes-5000", _rand_bytes(5000)),
        ("ints-3000", list(range(3000))),
    ]
    if tier != "quick":
        objs += [("bytes-1.2MiB", (b"0123456789abcdef" * 4096 * 19)[:1258291] + _rand_bytes(70000)),
                 ("empty", []), ("none", None)]
    else:
        objs += [("bytes-300KiB", _rand_bytes(300 * 1024))]
    try:
        import numpy as np
    except ImportError:
        return objs
    # raw array data is read with exact-length reads outside the pickle stream (numpy_pickle_utils._read_bytes)
    objs += [("ndarray-f8-40", np.arange(40.0)),
             ("ndarray-in-dict", {"a": np.arange(12, dtype="<i4").reshape(3, 4), "b": "x", "c": np.arange(5, dtype="u1")}),
             ("ndarray-struct", np.array([(1, 2.5), (3, 4.5)], dtype=[("i", "<i8"), ("f", "<f8")]))]
    return objs


def compressors(tier):
    cs = [("raw", 0), ("zlib", 3), ("gzip", 3), ("bz2", 3), ("lzma", 3), ("xz", 3)]
    if tier != "quick":
        cs += [("zlib", 1), ("zlib", 9), ("gzip", 9), ("bz2", 9), ("xz", 1)]
    return cs


def make_file(obj, comp, level, protocol):
    import joblib
    b = io.BytesIO()
    joblib.dump(obj, b, compress=(0 if comp == "raw" else (comp, level)), protocol=protocol)
    return b.getvalue()


def truncation_lengths(raw, tier):
    n = len(raw)
    if n <= 4096:
        return list(range(n))
    w = 16 if tier != "quick" else 6
    pts = {0, n}
    for k in range(0, n + 8192, 8192):
        pts.add(min(k, n))
    pts.add(n // 2)
    pts.add(n // 3)
    # pickle frame boundaries: FRAME opcode 0x95 + 8 bytes length (uncompressed files only)
    i = raw.find(b"\x95")
    while 0 <= i < n and len(pts) < 60:
        pts.add(i)
        i = raw.find(b"\x95", i + 1)
    out = set()
    for p in pts:
        for d in range(-w, w + 1):
            if 0 <= p + d < n:
                out.add(p + d)
    return sorted(out)


def suffixes(raw):
    return [("1-byte", b"x"), ("2-bytes", b"\x00\x80"), ("8192-bytes", b"\xab" * 8192), ("second-stream", raw),
            ("own-prefix", raw[: max(1, len(raw) // 2)]), ("newline", b"\n"), ("1-zero", b"\0")]


# -- termination monitor -------------------------------------------------------

mon = sys.monitoring
TOOL = 5
_mon_ready = False
_last = {}
_steps = [0, 0]  # count, budget
_tokens = [0]


_FIRST = {}
NO_PROGRESS_VISITS = 12


def _first_line(code):
    v = _FIRST.get(code)
    if v is None:
        v = _FIRST[code] = min(l for (_a, _b, l) in code.co_lines() if l is not None and l > code.co_firstlineno)
    return v


def _line_cb(code, line):
    _steps[0] += 1
    if _steps[0] > _steps[1]:
        raise Hang("step budget of %d joblib lines exceeded" % _steps[1])
    if code.co_name != "_fill_buffer":
        return
    f = sys._getframe(1)
    zf = f.f_locals.get("self")
    if zf is None:
        return
    d = zf._decompressor
    try:
        pos = zf._fp.tell()
    except Exception:  # noqa
        pos = -1
    st = (pos, None if d is None else d.eof, zf._buffer_offset, len(zf._buffer))
    # a token stored on the object, not id(): a later load in the same call (Memory re-loads the entry it has
    # just rewritten when mmap_mode is set) may get a new BinaryZlibFile at the address of the freed one
    tok = zf.__dict__.get("_vf_token")
    if tok is None:
        _tokens[0] += 1
        tok = zf.__dict__["_vf_token"] = _tokens[0]
    # a new invocation of _fill_buffer starts a new observation: "no progress" means the same line twice with the
    # same state inside ONE invocation (repeated invocations at end of file legitimately see the same state)
    if line == _first_line(code):
        for k in [k for k in _last if k[0] == tok]:
            del _last[k]
    key = (tok, line)
    prev = _last.get(key)
    # (state includes the identity of the decompressor object: a fresh one is progress.)  A statement spanning
    # several source lines comes back to its first line within ONE execution, so a single repetition proves nothing:
    # NO_PROGRESS_VISITS visits of one line with an identical state inside one invocation do.
    st = st + (id(d),)
    if prev is not None and prev[0] == st:
        cnt = prev[1] + 1
        if cnt >= NO_PROGRESS_VISITS:
            raise Hang("no progress in BinaryZlibFile._fill_buffer: line %d reached %d times with state %r in one invocation" % (line, cnt, st[:-1]))
        _last[key] = (st, cnt)
    else:
        _last[key] = (st, 1)


def monitor_setup():
    global _mon_ready
    if _mon_ready:
        return
    import joblib.compressor as C
    import joblib.numpy_pickle_utils as U
    mon.use_tool_id(TOOL, "vf-c14")
    mon.register_callback(TOOL, mon.events.LINE, _line_cb)
    codes = []
    for name in ("_fill_buffer", "_read_all", "_read_block", "read", "readinto", "seek", "_rewind"):
        codes.append(getattr(C.BinaryZlibFile, name).__code__)
    codes.append(U._read_bytes.__code__)
    for c in codes:
        mon.set_local_events(TOOL, c, mon.events.LINE)
    _mon_ready = True


def _alarm(signum, frame):
    raise Watchdog("wall-clock back-stop")


def guarded_load(data, budget):
    """joblib.load(BytesIO(data)) under the termination monitors.  Returns (kind, value)."""
    import joblib
    _last.clear()
    _steps[0] = 0
    _steps[1] = budget
    signal.setitimer(signal.ITIMER_REAL, 20.0)
    try:
        try:
            return ("value", joblib.load(io.BytesIO(data)))
        finally:
            signal.setitimer(signal.ITIMER_REAL, 0)
    except Hang as e:
        return ("hang", str(e))
    except Watchdog as e:
        return ("watchdog", str(e))
    except MemoryError as e:
        return ("memoryerror", str(e))
    except Exception as e:  # noqa
        return ("raises", type(e).__name__)
    except BaseException as e:  # noqa
        return ("raises-base", type(e).__name__)


def same(a, b):
    if type(a) is not type(b):
        return False
    try:
        return bool(a == b) and pickle.dumps(a, 2) == pickle.dumps(b, 2)
    except Exception:  # noqa
        pass
    try:
        # values holding numpy arrays ('==' is element-wise there): identical pickles <=> same dtype, shape and data
        return pickle.dumps(a, 2) == pickle.dumps(b, 2)
    except Exception:  # noqa
        return False


def _init():
    import logging
    logging.disable(logging.CRITICAL)   # joblib's "Exception while loading results" warnings are expected here
    monitor_setup()
    signal.signal(signal.SIGALRM, _alarm)
    try:
        resource.setrlimit(resource.RLIMIT_AS, (3 << 30, 3 << 30))
    except (ValueError, OSError):
        pass


def work_file(item):
    tier, oname, obj, comp, level, proto = item
    _init()
    raw = make_file(obj, comp, level, proto)
    # budget: 20x the undamaged load + 2000
    _steps[0] = 0
    _steps[1] = 10 ** 9
    kind, val = guarded_load(raw, 10 ** 9)
    if kind != "value" or not same(val, obj):
        return {"n": 1, "viol": [["undamaged-load-fails|%s" % comp, "load of the undamaged %s/%s file gives %s" % (oname, comp, kind),
                                   {"object": oname, "compressor": comp, "level": level, "protocol": proto, "damage": "none"}]],
                "outcomes": {}, "distinct": 0}
    budget = 20 * _steps[0] + 2000
    viols = {}
    outcomes = {}
    n = 0
    distinct = set()

    def judge(kind, val, dmg, detail):
        if kind == "raises":
            outcomes["raises"] = outcomes.get("raises", 0) + 1
            return
        if kind == "value":
            if same(val, obj):
                outcomes["equal-object"] = outcomes.get("equal-object", 0) + 1
                return
            k = "different-object"
            msg = "returned %r instead of raising or returning the original" % (val if len(repr(val)) < 200 else repr(val)[:200] + "...",)
        else:
            k = kind
            msg = "%s (%s)" % (kind, val)
        outcomes[k] = outcomes.get(k, 0) + 1
        sig = "%s|%s|%s" % (k, comp, dmg)
        if sig not in viols:
            viols[sig] = [sig, "joblib.load of %s (compress=%s level %s, protocol %s, %d bytes) with damage %s: %s" % (
                oname, comp, level, proto, len(raw), detail, msg),
                {"object": oname, "compressor": comp, "level": level, "protocol": proto, "damage": detail, "tier": tier}]

    for L in truncation_lengths(raw, tier):
        n += 1
        distinct.add(("t", L))
        kind, val = guarded_load(raw[:L], budget)
        judge(kind, val, "truncated", "truncated to %d of %d bytes" % (L, len(raw)))
    for sname, suf in suffixes(raw):
        n += 1
        distinct.add(("s", sname))
        kind, val = guarded_load(raw + suf, budget + 20 * len(suf) // 64)
        judge(kind, val, "suffix:" + sname, "followed by %s (%d extra bytes)" % (sname, len(suf)))
    return {"n": n, "viol": list(viols.values()), "outcomes": outcomes, "distinct": len(distinct),
            "sample": {"object": oname, "compressor": comp, "level": level, "protocol": proto, "file_bytes": len(raw),
                       "damaged_loads": n, "outcomes": outcomes}}


# -- Memory part -----------------------------------------------------------------

def work_memory(item):
    tier, compress, mmap_mode = item if len(item) == 3 else (item[0], item[1], None)
    _init()
    import joblib
    import importlib.util
    d = core.scratch_dir("c14mem-%s" % str(compress))
    modp = os.path.join(d, "vf_c14_mod.py")
    with open(modp, "w") as f:
        f.write("CALLS = []\n\ndef f(x):\n    CALLS.append(x)\n    return {'x': x, 'payload': list(range(40)), 's': 'v' * 50}\n")
    spec = importlib.util.spec_from_file_location("vf_c14_mod", modp)
    mod = importlib.util.module_from_spec(spec)
    sys.modules["vf_c14_mod"] = mod
    spec.loader.exec_module(mod)
    want = mod.f(1)
    mem = joblib.Memory(os.path.join(d, "cache"), verbose=0, compress=compress, mmap_mode=mmap_mode)
    cf = mem.cache(mod.f)
    try:
        cf(1)
    except (Hang, Watchdog) as e:
        sig = "memory-call-hang|compress=%s|intact-entry%s" % (compress, "" if mmap_mode is None else "|mmap_mode")
        return {"n": 1, "viol": [[sig, "the first (computing) call on an empty cache did not terminate (compress=%s, mmap_mode=%r): %s" % (compress, mmap_mode, e),
                                  {"part": "memory", "compress": compress, "mmap_mode": mmap_mode, "damage": "none", "tier": tier}]],
                "outcomes": {"memory-call-hang": 1}, "distinct": 1, "sample": {"memory_entry_compress": compress, "mmap_mode": mmap_mode}}
    outs = []
    for root, _dirs, files in os.walk(os.path.join(d, "cache")):
        if "output.pkl" in files:
            outs.append(os.path.join(root, "output.pkl"))
    if len(outs) != 1:
        raise core.HarnessError("expected one cache entry, found %r" % outs)
    path = outs[0]
    raw = open(path, "rb").read()
    viols = {}
    n = 0
    outcomes = {}
    damages = [("truncated", "truncated to %d of %d bytes" % (L, len(raw)), raw[:L]) for L in range(len(raw))]
    damages += [("suffix:" + sn, "followed by %s" % sn, raw + suf) for sn, suf in suffixes(raw)]
    if tier == "quick" and len(raw) > 400:
        damages = damages[::3] + damages[-7:]
    for dmg, detail, data in damages:
        n += 1
        with open(path, "wb") as f:
            f.write(data)
        import joblib.memory as M
        M._FUNCTION_HASHES.clear()
        mem2 = joblib.Memory(os.path.join(d, "cache"), verbose=0, compress=compress, mmap_mode=mmap_mode)
        cf2 = mem2.cache(mod.f)
        _last.clear()
        _steps[0] = 0
        _steps[1] = 200000
        signal.setitimer(signal.ITIMER_REAL, 20.0)
        try:
            try:
                got = ("value", cf2(1))
                again = cf2(1)      # the call after the recomputation sees whatever the recomputation left on disk
                if again != got[1]:
                    got = ("value", ("second call", again))
            finally:
                signal.setitimer(signal.ITIMER_REAL, 0)
        except Hang as e:
            got = ("hang", str(e))
        except Watchdog as e:
            got = ("watchdog", str(e))
        except BaseException as e:  # noqa
            got = ("raises", "%s: %s" % (type(e).__name__, e))
        if got[0] == "value" and got[1] == want:
            outcomes["correct"] = outcomes.get("correct", 0) + 1
        else:
            k = "memory-call-%s" % (got[0] if got[0] != "value" else "wrong-value")
            outcomes[k] = outcomes.get(k, 0) + 1
            sig = "%s|compress=%s|%s%s" % (k, compress, dmg, "" if mmap_mode is None else "|mmap_mode")
            if sig not in viols:
                viols[sig] = [sig, "cached call with output.pkl %s (compress=%s, mmap_mode=%r): %r instead of %r" % (detail, compress, mmap_mode, got, want),
                              {"part": "memory", "compress": compress, "mmap_mode": mmap_mode, "damage": detail, "tier": tier}]
        # restore a good entry for the next damage
        with open(path, "wb") as f:
            f.write(raw)
    return {"n": n, "viol": list(viols.values()), "outcomes": outcomes, "distinct": n,
            "sample": {"memory_entry_compress": compress, "mmap_mode": mmap_mode, "damaged_calls": n, "outcomes": outcomes}}


def _dispatch(item):
    if item[0] == "file":
        return work_file(item[1])
    return work_memory(item[1])


def plan(ctx):
    tier = ctx.tier
    items = []
    protos = (2, 4) if tier == "quick" else (2, 3, 4, 5)
    for oname, obj in objects(tier):
        for comp, level in compressors(tier):
            for proto in protos:
                items.append(("file", (tier, oname, obj, comp, level, proto)))
    for compress in (False, True, ("gzip", 3)) if tier == "quick" else (False, True, 1, ("gzip", 3), ("bz2", 3), ("xz", 3)):
        for mm in (None, "r", "c") if tier == "quick" else (None, "r", "r+", "c", "w+"):
            items.append(("mem", (tier, compress, mm)))
    return items


def run(ctx):
    items = plan(ctx)
    n = 0
    distinct = 0
    outcomes = {}
    k = 0
    for res in core.pmap(_dispatch, items):
        k += 1
        n += res["n"]
        distinct += res["distinct"]
        for o, c in res["outcomes"].items():
            outcomes[o] = outcomes.get(o, 0) + c
        for v in res["viol"]:
            ctx.violation(*v)
        if "sample" in res and k % max(1, len(items) // 5) == 0:
            ctx.sample(res["sample"])
    ctx.rule = ("for each (object, compressor, level, protocol) file: every truncation length for files <= 4 KiB, else every "
                "length within a window around 0, every 8192 multiple, n/2, n/3, pickle frame marks and the end; every "
                "suffix of {1 byte, 2 bytes, newline, zero byte, 8192 bytes, the file again, its own first half}; the same "
                "damage on output.pkl of a Memory entry (compress x mmap_mode in None/'r'/'c'[/'r+'/'w+']) followed by two cached calls. distinct_nontrivial = damaged inputs "
                "(all distinct by construction; every one is non-trivial: the file differs from the valid one)")
    ctx.exhaustive = True
    ctx.assumptions += ["termination: no-progress monitor on BinaryZlibFile._fill_buffer + step budget 20x the undamaged load + "
                        "RLIMIT_AS 3 GiB + 20 s back-stop; pickle's own opcode loop is trusted to consume input",
                        "process-level damage only: the file content is what joblib.load sees (BytesIO)"]
    return {"evaluations": n, "distinct_nontrivial": distinct, "files": len([i for i in items if i[0] == "file"]),
            "memory_entries": len([i for i in items if i[0] == "mem"]), "outcomes": outcomes}


def replay(data):
    print(data)
    print("re-run `bin/check C14 --tier %s` to re-judge this case" % data.get("tier", "quick"))
    if data.get("part") == "memory":
        res = work_memory((data.get("tier", "quick"), data["compress"] if not isinstance(data["compress"], list) else tuple(data["compress"]), data.get("mmap_mode")))
    else:
        obj = dict(objects(data.get("tier", "quick")))[data["object"]]
        res = work_file((data.get("tier", "quick"), data["object"], obj, data["compressor"], data["level"], data["protocol"]))
    for v in res["viol"]:
        print(v[0], v[1])
    if res["viol"]:
        print("VIOLATION property=C14 replay=<this file>")
        return 1
    return 0
