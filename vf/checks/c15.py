"""C15 - n_jobs bounds concurrency; nesting never multiplies worker processes.

(a) arithmetic: cpu_count() and effective_n_jobs of every backend over simulated machines
    (os.cpu_count, affinity, cgroup v1/v2 files, LOKY_MAX_CPU_COUNT injected by rebinding names
    inside loky.backend.context) and every n_jobs in [-2c, 2c];
(b) real concurrency: gate tasks (arrive, wait for release) with an exact running counter;
    all release orders for N <= 4, n_jobs in {1,2,3}; threading in-process, loky and
    multiprocessing in isolated sessions with file gates;
(c) nesting shapes of depth <= 3 under loky / multiprocessing / threading outer backends: the
    tree of (pid, thread, active backend) seen by nested default Parallel calls.
"""

import io
import itertools
import json
import math
import os
import shutil
import signal
import subprocess
import sys
import threading
import time
import types

from .. import core

LEVEL = "exploration"


# -- (a) arithmetic --------------------------------------------------------------------

def simulated_machines(tier):
    cpus = [None, 1, 2, 4, 64]
    aff = [None, 1, 2, 3, 64]          # None = sched_getaffinity not available
    cgroups = [("absent", None), ("v2", "max 100000"), ("v2", "50000 100000"), ("v2", "150000 100000"), ("v2", "300000 100000"),
               ("v1", ("150000", "100000")), ("v1", ("-1", "100000"))]
    envs = [None, "0", "1", "3", "100"]
    if tier == "quick":
        return list(itertools.product(cpus, aff, cgroups, envs))
    return list(itertools.product(cpus + [3, 16], aff + [4], cgroups + [("v1", ("50000", "100000"))], envs + ["2"]))


def expected_cpu_count(cpu, aff, cg, env):
    os_cpu = cpu or 1
    limits = [os_cpu]
    limits.append(aff if aff is not None else os_cpu)
    kind, val = cg
    if kind == "v2":
        q, p = val.split()
        if q != "max":
            limits.append(math.ceil(int(q) / int(p)))
    elif kind == "v1":
        q, p = val
        if int(q) > 0:
            limits.append(math.ceil(int(q) / int(p)))
    if env is not None:
        limits.append(int(env))
    return max(1, min(limits))


def install_machine(ctxmod, cpu, aff, cg, env):
    kind, val = cg
    files = {}
    if kind == "v2":
        files["/sys/fs/cgroup/cpu.max"] = val + "\n"
    elif kind == "v1":
        files["/sys/fs/cgroup/cpu/cpu.cfs_quota_us"] = val[0] + "\n"
        files["/sys/fs/cgroup/cpu/cpu.cfs_period_us"] = val[1] + "\n"
    environ = {} if env is None else {"LOKY_MAX_CPU_COUNT": env}
    ns = types.SimpleNamespace()
    ns.cpu_count = lambda: cpu
    if aff is not None:
        ns.sched_getaffinity = lambda pid: set(range(aff))
    ns.path = types.SimpleNamespace(exists=lambda p: p in files)
    ns.environ = environ
    ns.name = os.name
    ns.getpid = os.getpid
    ctxmod.os = ns
    ctxmod.open = lambda p, *a, **k: io.StringIO(files[p])


def part_a(ctx):
    import joblib
    import joblib._parallel_backends as PB
    import joblib.parallel as JP
    from joblib.externals.loky.backend import context as C
    n = 0
    real_os, had_open = C.os, hasattr(C, "open")
    import warnings
    try:
        for cpu, aff, cg, env in simulated_machines(ctx.tier):
            install_machine(C, cpu, aff, cg, env)
            n += 1
            want = expected_cpu_count(cpu, aff, cg, env)
            with warnings.catch_warnings():
                warnings.simplefilter("ignore")
                try:
                    got = C.cpu_count()
                except Exception as e:  # noqa
                    got = "raises %s: %s" % (type(e).__name__, e)
            if got != want:
                which = "env" if env is not None and want == max(1, int(env)) else "affinity" if aff is not None and want == aff else "cgroup" if cg[0] != "absent" else "os"
                ctx.violation("cpu_count|%s" % which, "os.cpu_count()=%r, affinity=%r, cgroup=%r, LOKY_MAX_CPU_COUNT=%r: cpu_count() gives %r, expected max(1, min(all limits)) = %r" % (
                    cpu, aff, cg, env, got, want), {"part": "a", "machine": [cpu, aff, list(cg), env]})
    finally:
        C.os = real_os
        if not had_open and hasattr(C, "open"):
            del C.open
    # effective_n_jobs over cpu counts c and n_jobs in [-2c, 2c]
    real = PB.cpu_count
    try:
        for c in (1, 2, 3, 4, 8) if ctx.tier == "quick" else (1, 2, 3, 4, 5, 8, 16, 64):
            PB.cpu_count = lambda c=c: c
            for nj in range(-2 * c, 2 * c + 1):
                for name, mk in (("threading", lambda: PB.ThreadingBackend(nesting_level=0)),
                                 ("multiprocessing", lambda: PB.MultiprocessingBackend(nesting_level=0)),
                                 ("loky", lambda: PB.LokyBackend(nesting_level=0)),
                                 ("sequential", lambda: PB.SequentialBackend(nesting_level=0))):
                    n += 1
                    if nj == 0:
                        want = "ValueError"
                    elif name == "sequential":
                        want = 1
                    elif nj > 0:
                        want = nj
                    else:
                        want = max(c + 1 + nj, 1)
                    try:
                        got = mk().effective_n_jobs(nj)
                    except ValueError:
                        got = "ValueError"
                    if got != want:
                        ctx.violation("effective_n_jobs|%s|%s" % (name, "negative" if nj < 0 else "zero" if nj == 0 else "positive"),
                                      "%s backend, cpu_count()=%d: effective_n_jobs(%d) = %r, expected %r" % (name, c, nj, got, want),
                                      {"part": "a", "backend": name, "cpus": c, "n_jobs": nj})
                    # through Parallel
                    if nj != 0:
                        p = joblib.Parallel(n_jobs=nj, backend=name)
                        got2 = p._effective_n_jobs()
                        if got2 != want:
                            ctx.violation("Parallel._effective_n_jobs|%s" % name, "Parallel(n_jobs=%d, backend=%r) with %d cpus resolves to %r, expected %r" % (nj, name, c, got2, want),
                                          {"part": "a", "backend": name, "cpus": c, "n_jobs": nj})
    finally:
        PB.cpu_count = real
    # n_jobs == 1 runs in the calling thread
    from ..c15_tasks import ident_task
    me = (os.getpid(), threading.get_ident())
    for name in ("threading", "loky", "multiprocessing", "sequential", None):
        n += 1
        kw = {} if name is None else {"backend": name}
        out = joblib.Parallel(n_jobs=1, **kw)(joblib.delayed(ident_task)(i) for i in range(3))
        if any(o != me for o in out):
            ctx.violation("n_jobs=1-not-in-caller|%s" % name, "Parallel(n_jobs=1, backend=%r) ran tasks in %r, the caller is %r" % (name, out, me),
                          {"part": "a", "backend": name})
    return n


# -- (b) real concurrency -------------------------------------------------------------------

def gate_run(backend, n_jobs, n_tasks, order_choices, d, config=None):
    """One Parallel call on gate tasks; the controller releases arrived gates following order_choices.
    Returns (high-water mark, number of decision points with their menu sizes, results)."""
    import joblib
    from ..c15_tasks import gate_task
    shutil.rmtree(d, ignore_errors=True)
    os.makedirs(d)
    box = {}

    def call():
        try:
            if config:
                with joblib.parallel_config(**config):
                    box["out"] = joblib.Parallel(n_jobs=n_jobs)(joblib.delayed(gate_task)(d, i) for i in range(n_tasks))
            else:
                box["out"] = joblib.Parallel(n_jobs=n_jobs, backend=backend)(joblib.delayed(gate_task)(d, i) for i in range(n_tasks))
        except BaseException as e:  # noqa
            box["exc"] = "%s: %s" % (type(e).__name__, e)

    t = threading.Thread(target=call)
    t.start()
    released = set()
    menus = []
    high = 0
    k = 0
    deadline = time.time() + 60
    expected_bound = n_jobs

    def arrived():
        return {int(f.split("-")[1]) for f in os.listdir(d) if f.startswith("arrive-")}

    def done():
        return {int(f.split("-")[1]) for f in os.listdir(d) if f.startswith("done-")}

    while len(released) < n_tasks and time.time() < deadline and t.is_alive():
        # wait until as many tasks as can run have arrived (or a grace period elapsed)
        want = min(expected_bound, n_tasks - len(released))
        t1 = time.time() + (1.5 if backend != "threading" else 0.3)
        while time.time() < t1:
            waiting = arrived() - released
            if len(waiting) >= want:
                # give an over-subscribed pool a moment to show a further arrival
                time.sleep(0.03)
                break
            time.sleep(0.003)
        waiting = sorted(arrived() - released)
        running = len(arrived() - done())
        high = max(high, running)
        if not waiting:
            continue
        c = order_choices[k] if k < len(order_choices) else 0
        menus.append(len(waiting))
        k += 1
        i = waiting[c % len(waiting)]
        open(os.path.join(d, "release-%d" % i), "w").close()
        released.add(i)
        # wait for its completion to be visible so that 'running' stays exact
        t2 = time.time() + 5
        while time.time() < t2 and i not in done():
            time.sleep(0.002)
    t.join(30)
    return high, menus, box


def enumerate_orders(backend, n_jobs, n_tasks, d, limit):
    """DFS over release orders; returns (executions, max high-water, failures)."""
    stack = [[]]
    execs = 0
    worst = 0
    fails = []
    seen = set()
    while stack and execs < limit:
        prefix = stack.pop()
        high, menus, box = gate_run(backend, n_jobs, n_tasks, prefix, d)
        execs += 1
        worst = max(worst, high)
        if "exc" in box or box.get("out") != list(range(n_tasks)):
            fails.append((prefix, box))
        for i in range(len(prefix), len(menus)):
            for alt in range(1, menus[i]):
                p = tuple(list(prefix) + [0] * (i - len(prefix)) + [alt])
                if p not in seen:
                    seen.add(p)
                    stack.append(list(p))
    return execs, worst, fails


def work_b(item):
    backend, n_jobs, n_tasks, limit = item
    import warnings
    warnings.simplefilter("ignore")
    d = core.scratch_dir("c15b-%d" % os.getpid())
    execs, worst, fails = enumerate_orders(backend, n_jobs, n_tasks, os.path.join(d, "g"), limit)
    shutil.rmtree(d, ignore_errors=True)
    return {"item": item, "execs": execs, "high": worst, "fails": [(list(p), repr(b)[:200]) for p, b in fails[:2]]}


def run_in_session(fn_name, arg, timeout=180, module="vf.checks.c15"):
    """Runs vf.checks.c15.<fn_name>(arg) in a fresh interpreter in its own session; returns its JSON result."""
    d = core.scratch_dir("c15s-%d-%d" % (os.getpid(), int(time.time() * 1000) % 100000))
    out_path = os.path.join(d, "result.json")
    env = dict(os.environ)
    env.pop("PYTHONDONTWRITEBYTECODE", None)
    env["PYTHONPYCACHEPREFIX"] = "/dev/shm/vf-pycache"
    env["PYTHONPATH"] = "%s:%s" % (core.REPO, core.ROOT)
    env["JOBLIB_TEMP_FOLDER"] = d
    log = open(os.path.join(d, "out.txt"), "wb")
    proc = subprocess.Popen([sys.executable, "-m", module, fn_name, json.dumps(arg), out_path],
                            stdin=subprocess.DEVNULL, stdout=log, stderr=log, env=env, cwd=core.ROOT, start_new_session=True)
    try:
        proc.wait(timeout=timeout)
        timed_out = False
    except subprocess.TimeoutExpired:
        timed_out = True
    try:
        os.killpg(proc.pid, signal.SIGKILL)
    except OSError:
        pass
    try:
        proc.wait(10)
    except Exception:  # noqa
        pass
    log.close()
    res = None
    try:
        with open(out_path) as f:
            res = json.load(f)
    except (OSError, ValueError):
        pass
    tail = ""
    try:
        tail = open(os.path.join(d, "out.txt"), "rb").read()[-500:].decode("utf-8", "replace")
    except OSError:
        pass
    from .c10 import _cleanup_shm
    pids = {proc.pid}
    if res and isinstance(res, dict):
        pids |= set(res.get("pids", []))
    _cleanup_shm(pids)
    shutil.rmtree(d, ignore_errors=True)
    return res, timed_out, tail


def session_gate(arg):
    backend, n_jobs, n_tasks, limit = arg
    r = work_b((backend, n_jobs, n_tasks, limit))
    r["pids"] = [os.getpid()]
    return r


def session_reuse(arg):
    """Two consecutive calls in ONE process so that the second one re-uses the first one's worker pool."""
    backend, n1, n2, n_tasks = arg
    import warnings
    warnings.simplefilter("ignore")
    d = core.scratch_dir("c15r-%d" % os.getpid())
    config = {"backend": backend}
    if backend == "loky":
        config["inner_max_num_threads"] = 1   # same worker environment for every n_jobs => the executor is re-used
    high1, _m1, box1 = gate_run(backend, n1, n1, [], os.path.join(d, "g1"), config=config)
    high2, _m2, box2 = gate_run(backend, n2, n_tasks, [], os.path.join(d, "g2"), config=config)
    shutil.rmtree(d, ignore_errors=True)
    return {"high1": high1, "high2": high2, "ok1": box1.get("out") == list(range(n1)), "ok2": box2.get("out") == list(range(n_tasks)),
            "err": [box1.get("exc"), box2.get("exc")], "pids": [os.getpid()]}


def work_reuse(arg):
    res, timed_out, tail = run_in_session("session_reuse", list(arg), timeout=300)
    if timed_out or res is None or "error" in res:
        return {"arg": arg, "bad": [("pool-reuse|scenario-failed", "%r: %s" % (arg, (res or {}).get("error") if res else tail[-200:]))]}
    bad = []
    backend, n1, n2, n_tasks = arg
    if res["high1"] > n1:
        bad.append(("concurrency-exceeds-n_jobs|%s|first-call" % backend, "first call n_jobs=%d ran %d tasks at once" % (n1, res["high1"])))
    if res["high2"] > n2:
        bad.append(("concurrency-exceeds-n_jobs|%s|reused-pool" % backend,
                    "a call with n_jobs=%d issued after a call with n_jobs=%d in the same process ran %d tasks at the same time" % (n2, n1, res["high2"])))
    if not (res["ok1"] and res["ok2"]):
        bad.append(("pool-reuse|wrong-results|%s" % backend, "results wrong or call failed: %r" % (res["err"],)))
    return {"arg": arg, "bad": bad}


def nest_shape(arg):
    outer, depth, inner = arg[:3]
    width = arg[3] if len(arg) > 3 else 2
    import joblib
    from ..c15_tasks import nest
    import warnings
    warnings.simplefilter("ignore")
    p = joblib.Parallel(n_jobs=2, backend=outer)
    trees = p(joblib.delayed(nest)(1, depth, inner, width) for _ in range(3))
    return {"main_pid": os.getpid(), "main_tid": threading.get_ident(), "trees": trees, "pids": [os.getpid()]}


def judge_nesting(arg, res):
    outer, depth, inner = arg[:3]
    bad = []
    main_pid = res["main_pid"]
    trees = res["trees"]
    outer_pids = {t["pid"] for t in trees}
    if outer in ("loky", "multiprocessing"):
        if main_pid in outer_pids:
            bad.append(("nesting|outer-ran-in-parent", "outer %s tasks ran in the parent process" % outer))
        if len(outer_pids) > 2:
            bad.append(("nesting|outer-too-many-processes", "outer %s with n_jobs=2 used %d processes" % (outer, len(outer_pids))))
    else:
        if outer_pids != {main_pid}:
            bad.append(("nesting|threads-left-process", "outer threading tasks ran in pids %r" % sorted(outer_pids)))
    all_pids = set()

    def walk(node, parent):
        all_pids.add(node["pid"])
        lvl = node["level"]
        if parent is not None:
            if node["pid"] != parent["pid"]:
                bad.append(("nesting|nested-call-started-process|level%d" % lvl,
                            "a nested default Parallel call at level %d ran a task in pid %d, its parent task is in pid %d" % (lvl, node["pid"], parent["pid"])))
            if inner is None:
                plevel = parent["level"]
                # tasks of the call issued by a level-`plevel` task
                if plevel >= 2:
                    if node["tid"] != parent["tid"]:
                        bad.append(("nesting|deep-level-not-sequential|level%d" % lvl,
                                    "level-%d task ran in thread %d, expected the thread of its parent (%d): deeper levels must run sequentially" % (lvl, node["tid"], parent["tid"])))
        if node.get("children"):
            if inner is None:
                ib = node.get("inner_backend_effective")
                plevel = node["level"]
                first_nested = plevel == 1
                want = ("ThreadingBackend",) if first_nested else ("SequentialBackend",)
                if ib not in want:
                    bad.append(("nesting|inner-backend|level%d" % plevel, "the default Parallel call issued at level %d under outer %s uses %s, expected %s" % (plevel, outer, ib, want[0])))
                tids = {c["tid"] for c in node["children"]}
                if len(tids) > 2:
                    bad.append(("nesting|too-many-threads", "a nested call with n_jobs=2 used %d threads" % len(tids)))
            for c in node["children"]:
                walk(c, node)

    for t in trees:
        walk(t, None)
    if not all_pids <= outer_pids:
        bad.append(("nesting|extra-processes", "tasks ran in pids %r outside the outer pool %r" % (sorted(all_pids - outer_pids), sorted(outer_pids))))
    return bad


def work_c(arg):
    res, timed_out, tail = run_in_session("nest_shape", arg, timeout=120)
    if timed_out or res is None or "error" in res:
        return {"arg": arg, "bad": [("nesting|scenario-failed", "shape %r: %s" % (arg, (res or {}).get("error") if res else ("timeout" if timed_out else tail[-200:])))]}
    return {"arg": arg, "bad": judge_nesting(arg, res), "summary": {"shape": arg, "pids": len({t["pid"] for t in res["trees"]})}}


def work_b_session(item):
    res, timed_out, tail = run_in_session("session_gate", item, timeout=300)
    if timed_out or res is None or "error" in res:
        return {"item": item, "execs": 0, "high": -1, "fails": [([], "scenario failed: %s" % ((res or {}).get("error") if res else tail[-200:]))]}
    return res


def _b_dispatch(item):
    if item[0] == "threading":
        return work_b(item)
    return work_b_session(item)


def run(ctx):
    quick = ctx.tier == "quick"
    os.makedirs("/dev/shm/vf-pycache", exist_ok=True)
    na = part_a(ctx)
    # (b)
    items = []
    for nj in (1, 2, 3):
        for nt in (2, 3, 4):
            items.append(("threading", nj, nt, 40 if quick else 200))
    for backend in ("loky", "multiprocessing"):
        for nj, nt in (((2, 3), (3, 4)) if quick else ((2, 3), (2, 4), (3, 4), (3, 5))):
            items.append((backend, nj, nt, 6 if quick else 30))
    nb = 0
    for res in core.pmap(_b_dispatch, items, nproc=6):
        backend, nj, nt, _lim = res["item"]
        nb += res["execs"]
        if res["high"] > nj:
            ctx.violation("concurrency-exceeds-n_jobs|%s" % backend, "%s backend with n_jobs=%d ran %d gate tasks at the same time" % (backend, nj, res["high"]),
                          {"part": "b", "item": list(res["item"])})
        for p, b in res["fails"]:
            ctx.violation("gate-run-failed|%s" % backend, "release order %r: %s" % (p, b), {"part": "b", "item": list(res["item"])})
        ctx.sample({"part": "b", "backend": backend, "n_jobs": nj, "tasks": nt, "release_orders_run": res["execs"], "high_water": res["high"]})
    # (b') a second call with another n_jobs in the same process (worker pool re-used)
    reuse = [("loky", 3, 2, 4), ("loky", 2, 3, 4), ("multiprocessing", 3, 2, 4), ("threading", 3, 2, 4)]
    if not quick:
        reuse += [("loky", 4, 2, 5), ("loky", 3, 1, 3), ("threading", 2, 3, 4), ("multiprocessing", 2, 3, 4)]
    for res in core.pmap(work_reuse, reuse, nproc=6):
        nb += 2
        for sig, msg in res["bad"]:
            ctx.violation(sig, msg, {"part": "b-reuse", "arg": list(res["arg"])})
    # (c)
    shapes = []
    for outer in ("loky", "multiprocessing", "threading"):
        for depth in (2, 3):
            shapes.append((outer, depth, None))
        # more tasks per nested call than are pre-dispatched (2 * n_jobs = 4): the later batches are dispatched from the
        # completion-callback thread of the pool, not from the thread that made the call
        shapes.append((outer, 3, None, 6))
    if not quick:
        for outer in ("loky", "threading"):
            for inner in ("threading", "sequential"):
                shapes.append((outer, 2, inner))
    nc = 0
    for res in core.pmap(work_c, shapes, nproc=6):
        nc += 1
        for sig, msg in res["bad"]:
            ctx.violation(sig, msg, {"part": "c", "shape": list(res["arg"])})
    ctx.rule = ("(a) %d simulated machines (os.cpu_count x affinity x cgroup v1/v2 x LOKY_MAX_CPU_COUNT) and every n_jobs in [-2c, 2c] for "
                "every backend class and through Parallel, n_jobs=1 thread identity; (b) gate tasks with an exact running counter, every "
                "release order (DFS, capped per configuration) for n_jobs in {1,2,3}, N in {2,3,4}: threading in-process, loky / "
                "multiprocessing in isolated sessions, plus pairs of consecutive calls with different n_jobs in one process (pool re-use); (c) %d nesting shapes (outer backend x depth <= 3 [x explicit inner backend])"
                % (len(simulated_machines(ctx.tier)), len(shapes)))
    ctx.exhaustive = True
    ctx.assumptions += ["(b)/(c) use real pools: the OS schedule is not controlled; the running counter is exact because gate tasks cannot finish before they are released",
                        "(a) rebinds os / open inside joblib.externals.loky.backend.context and cpu_count inside joblib._parallel_backends"]
    return {"evaluations": na + nb + nc, "distinct_nontrivial": na + nb + nc, "arithmetic_cases": na, "gate_executions": nb, "nesting_shapes": nc}


def replay(data):
    print(data)
    return 1


if __name__ == "__main__":
    fn_name, arg, out_path = sys.argv[1], json.loads(sys.argv[2]), sys.argv[3]
    try:
        res = {"session_gate": session_gate, "nest_shape": nest_shape, "session_reuse": session_reuse}[fn_name](arg)
    except BaseException as e:  # noqa
        import traceback
        res = {"error": "%s: %s\n%s" % (type(e).__name__, e, traceback.format_exc()[-600:])}
    with open(out_path + ".tmp", "w") as f:
        json.dump(res, f, default=repr)
    os.replace(out_path + ".tmp", out_path)
