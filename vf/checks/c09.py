"""C09 - Parallel consumes its input lazily, boundedly and from one thread at a time.

Same engine as C01 (real Parallel under vf.pysched + virtual backend); the input is an
instrumented generator (its body is a scheduling region) and the invariants I1-I6 of
DESIGN.md are evaluated at every take / submit / finish event of every explored
execution.  Plus exhaustive enumeration of a small expression grammar for eval_expr.
"""

import itertools

from .. import core, parcommon as PC

LEVEL = "model_checking"


def bound_of(c):
    """(P, look-ahead factor) -> input length strictly beyond every look-ahead boundary."""
    P = PC.resolve_pre(c["pre_dispatch"], c["n_jobs"])
    b = c["batch_size"] if isinstance(c["batch_size"], int) else 2
    if P is None:
        return 6
    return max(1, P) * b + c["n_jobs"] * b


def to_scenario(c):
    n = c["n"]
    spec = {"n": n, "input": "gen"}
    kind = c["script"]
    prog = [("call", spec)]
    gen = c["return_as"] != "list"
    if kind == "plain":
        if gen:
            prog.append(("exhaust", 1))
    elif kind == "fail":
        spec["fail"] = [c["k"]]
        if gen:
            prog.append(("exhaust", 1))
    elif kind == "iterfail":
        spec["iter_fail_at"] = c["k"]
        if gen:
            prog.append(("exhaust", 1))
    elif kind in ("close", "drop"):
        prog.append(("next", 1, c["k"]))
        prog.append((kind, 1))
    cfg = dict(n_jobs=c["n_jobs"], batch_size=c["batch_size"], pre_dispatch=c["pre_dispatch"],
               return_as=c["return_as"], order=c.get("order", "free"), program=prog, abort=c.get("abort", "drop"))
    return cfg


def judge(cfg, obs):
    env = obs.env
    bad = []
    ra = cfg["return_as"]
    spec = cfg["program"][0][1]
    n = spec["n"]
    failing = bool(spec.get("fail")) or spec.get("iter_fail_at") is not None
    if obs.verdict in ("deadlock", "hang"):
        return [("%s|%s" % (obs.verdict, ra), "the run never terminates (%s)" % obs.verdict)]
    # I1: one actor at a time inside the input generator
    if env.gen_reentered:
        bad.append(("I1-reentrant-input", "two actors were inside the input generator at the same time"))
    for r in obs.steps:
        if "exc" in r and r["exc"][0] == "ValueError" and "already executing" in " ".join(r["exc"][1]):
            bad.append(("I1-reentrant-input", "CPython reported concurrent use of the input generator: %r" % (r["exc"],)))
        elif "exc" in r and not failing and r["kind"] != "harness":
            bad.append(("exception:%s" % r["exc"][0], "step %s raised %s%r" % (r["kind"], r["exc"][0], r["exc"][1])))
    nj = cfg["n_jobs"]
    if nj == 1:
        # sequential path: items are pulled one batch at a time, in the calling thread
        b = cfg["batch_size"] if isinstance(cfg["batch_size"], int) else 1
        if env.max_ahead_exec > b:
            bad.append(("I4-sequential-not-lazy", "n_jobs=1: %d items taken beyond the executed tasks, more than one batch of %d" % (env.max_ahead_exec, b)))
        if env.pullers.get(1, set()) - {"caller"}:
            bad.append(("I1-sequential-foreign-thread", "n_jobs=1 but items were pulled by %r" % sorted(env.pullers.get(1))))
        for name, detail in env.inv_violations:
            bad.append(("I6-" + name, detail))
        return bad
    bmax = cfg["batch_size"] if isinstance(cfg["batch_size"], int) else env.b_max
    P = PC.resolve_pre(cfg["pre_dispatch"], nj)
    infl = env.max_inflight_by_call.get(1, 0)
    look = env.max_lookahead_by_call.get(1, 0)
    ahead = env.max_ahead_by_call.get(1, 0)
    if P is not None:
        if infl > max(1, P):
            bad.append(("I2-inflight", "%d batches in flight, more than pre_dispatch=%d" % (infl, P)))
        lim = max(1, P) * bmax + nj * bmax
        if ahead > lim:
            bad.append(("I4-ahead-of-completed", "%d items taken beyond the completed tasks; bound P*b+n_jobs*b = %d (P=%d, b=%d, n_jobs=%d, N=%d)" % (ahead, lim, P, bmax, nj, n)))
    if look > nj * bmax:
        bad.append(("I3-lookahead", "%d items taken but not yet submitted; bound n_jobs*b = %d" % (look, nj * bmax)))
    if P is None and not failing:
        # I5: 'all' => everything is pulled up front, by the caller
        first = obs.steps[0]
        if ra != "list" and first.get("taken_at_return") != n:
            bad.append(("I5-all-not-upfront", "pre_dispatch='all' but only %r of %d items were taken when the call returned" % (first.get("taken_at_return"), n)))
        if env.pullers.get(1, set()) - {"caller"}:
            bad.append(("I5-all-not-upfront", "pre_dispatch='all' but items were pulled by %r" % sorted(env.pullers.get(1))))
    for name, detail in env.inv_violations:
        bad.append(("I6-" + name, detail))
    return bad


def _work(unit):
    (c, bounds, max_execs), shard = unit
    cfg = to_scenario(c)
    st = PC.explore_config(cfg, bounds, judge, max_execs=max_execs, shard=shard)
    res = st.result()
    res["shard_nonzero"] = bool(shard and shard[0])
    res["sample"] = {"config": c, "bounds(pb,eb,ob,joint)": list(bounds), "executions": st.execs,
                     "distinct_outcomes": len(st.outcomes)}
    return res


def plan(ctx):
    quick = ctx.tier == "quick"
    items = []
    base = []
    for nj, bs, pre, ra in itertools.product(PC.N_JOBS, (1, 2, "auto"), PC.PRE, ("list", "generator")):
        c = dict(n_jobs=nj, batch_size=bs, pre_dispatch=pre, return_as=ra, script="plain")
        c["n"] = min(bound_of(c) + 2, 10) if quick else min(2 * bound_of(c) + 1, 20)
        base.append(c)
    if quick:
        sel = PC.rotate_slice(base, ctx.seed, 4)
        for c in base:
            items.append((c, (1, 1, 1, 1) if c in sel else (0, 1, 1, 1), 30000))
    else:
        for c in base:
            items.append((c, (1, 1, 2, 2), 300000))
    # n_jobs == 1: the sequential path must stay lazy (one batch ahead at most)
    for bs, pre, ra in itertools.product((1, 3, "auto"), ("2*n_jobs", "all", 1), ("list", "generator")):
        items.append((dict(n_jobs=1, batch_size=bs, pre_dispatch=pre, return_as=ra, script="plain", n=8), (0, 0, 0, 0), 10))
    # I6: failure / close / drop scripts
    scripts = []
    for nj, bs, pre in itertools.product(PC.N_JOBS, (1, 2), (1, "n_jobs", "2*n_jobs", 3)):
        for k in (0, 2):
            nn = 7 if quick else 10
            scripts.append(dict(n_jobs=nj, batch_size=bs, pre_dispatch=pre, return_as="list", script="fail", k=k, n=nn))
            scripts.append(dict(n_jobs=nj, batch_size=bs, pre_dispatch=pre, return_as="generator", script="fail", k=k, n=nn))
            scripts.append(dict(n_jobs=nj, batch_size=bs, pre_dispatch=pre, return_as="generator", script="close", k=k, n=nn))
            scripts.append(dict(n_jobs=nj, batch_size=bs, pre_dispatch=pre, return_as="generator", script="drop", k=k, n=nn))
        scripts.append(dict(n_jobs=nj, batch_size=bs, pre_dispatch=pre, return_as="list", script="iterfail", k=3, n=nn))
    for ab in ("drop", "zombie"):
        for c in (PC.rotate_slice(scripts, ctx.seed + (ab == "zombie"), 4) if quick else scripts):
            c = dict(c, abort=ab)
            items.append((c, (1, 0, 1, 2), 60000 if quick else 400000))
    items.sort(key=lambda it: -(it[0]["n"] * (1 + it[1][0])))
    return PC.shard_items(items, lambda it: it[0]["n"] * it[1][0], 7 if quick else 1)


# -- eval_expr grammar -------------------------------------------------------

def grammar(depth):
    """All expressions of the small arithmetic grammar up to the given depth."""
    atoms = ["1", "2", "3", "0.5", "1.5"]
    level = list(atoms)
    allx = list(atoms)
    ops = ["+", "-", "*", "/", "//", "%", "**"]
    for _ in range(depth - 1):
        new = []
        small = level[:7]
        for a in small:
            new.append("-%s" % a)
            new.append("(%s)" % a)
            for op in ops:
                for b in atoms[:4]:
                    new.append("%s %s %s" % (a, op, b))
                    new.append("%s%s(%s)" % (b, op, a))
        level = new
        allx += new
    seen = set()
    out = []
    for e in allx:
        if e not in seen:
            seen.add(e)
            out.append(e)
    return out


FORBIDDEN = ["n_jobs", "__import__('os')", "abs(1)", "(1).real", "[1][0]", "x", "1 if 1 else 2", "lambda: 1",
             "1 < 2", "1 and 2", "not 1", "~1", "1 << 2", "1 | 2", "[1, 2]", "(1, 2)", "{1: 2}", "f'{1}'",
             "1; 2", "", " ", "1 +", "print(1)", "os.system('true')", "1 @ 2", "(x := 1)", "*1", "1 ,",
             "__builtins__", "exit()", "open('/tmp/x','w')"]


def check_eval_expr(ctx):
    from joblib._utils import eval_expr
    n = 0
    distinct = set()
    for e in grammar(3):
        n += 1
        try:
            want = ("v", eval(e, {"__builtins__": {}}, {}))
        except ZeroDivisionError:
            want = ("ZeroDivisionError",)
        except OverflowError:
            want = ("OverflowError",)
        try:
            got = ("v", eval_expr(e))
        except ZeroDivisionError:
            got = ("ZeroDivisionError",)
        except OverflowError:
            got = ("OverflowError",)
        except Exception as ex:  # noqa
            got = ("exc", type(ex).__name__)
        distinct.add(repr(want))
        if got != want or (got[0] == "v" and type(got[1]) is not type(want[1])):
            ctx.violation("eval_expr|arith", "eval_expr(%r) gives %r, Python arithmetic gives %r" % (e, got, want),
                          {"kind": "eval_expr", "expr": e})
    for e in FORBIDDEN:
        n += 1
        try:
            v = eval_expr(e)
            ctx.violation("eval_expr|evaluates-non-arithmetic", "eval_expr(%r) returned %r instead of raising ValueError" % (e, v),
                          {"kind": "eval_expr", "expr": e})
        except ValueError:
            pass
        except Exception as ex:  # noqa
            ctx.violation("eval_expr|wrong-error", "eval_expr(%r) raised %s instead of ValueError" % (e, type(ex).__name__),
                          {"kind": "eval_expr", "expr": e})
    return n, len(distinct)


def run(ctx):
    items = plan(ctx)
    tot, outcomes, verdicts = PC.run_items(ctx, items, _work, sample_every=max(1, len(items) // 4))
    n_expr, d_expr = check_eval_expr(ctx)
    ctx.rule = ("inputs longer than every look-ahead boundary (N = bound+3 .. 2*bound+1) for every n_jobs x batch_size x "
                "pre_dispatch form x return_as; scripts with a failing task / failing iterator step / close / drop after k "
                "results, with pool-like (drop) and zombie late completions; all schedules within the bounds shown in "
                "samples; invariants I1-I6 evaluated at every take/submit/finish event; eval_expr over a 3-level "
                "arithmetic grammar (%d expressions) + %d non-arithmetic inputs that must raise ValueError. "
                "distinct_nontrivial = distinct outcomes (verdict, results, execution order)" % (n_expr - len(FORBIDDEN), len(FORBIDDEN)))
    ctx.exhaustive = True
    ctx.assumptions += [
        "I4 uses the provable bound P*b_max + n_jobs*b_max (b_max = largest batch size returned so far)",
        "I6 lets a dispatch_one_batch invocation that had already passed its abort check finish its slice (that frame, and only it)",
        "same environment model and granularity as C01",
    ]
    return {"states": tot["states"], "transitions": tot["transitions"],
            "traces_validated_against_impl": tot["execs"], "evaluations": tot["execs"] + n_expr,
            "distinct_nontrivial": len(outcomes), "configurations": tot["configs"],
            "scheduling_points_executed": tot["points"], "eval_expr_cases": n_expr, "verdicts": dict(verdicts)}


def replay(data):
    if data.get("kind") == "eval_expr":
        from joblib._utils import eval_expr
        try:
            print(repr(eval_expr(data["expr"])))
        except Exception as e:  # noqa
            print("raises", type(e).__name__, e)
        print("VIOLATION property=C09 replay=<this file> (re-run the check to re-judge)")
        return 1
    from .. import parharness as H
    cfg = data["cfg"]
    cfg["program"] = [tuple(s) for s in cfg["program"]]
    obs = H.run_scenario(cfg, data["choices"])
    b = judge(cfg, obs)
    print("replay verdict:", obs.verdict, [PC._step_view(r) for r in obs.steps])
    for line in PC.describe_switches(obs.sched):
        print("  ", line)
    for sig, msg in b:
        print(sig, msg)
    if b:
        print("VIOLATION property=C09 replay=<this file>")
        return 1
    return 0
