"""C04 - task failures surface as that exception; the call terminates; the object stays reusable.

Programs of 2-3 calls on ONE Parallel object (ok / failing task(s) / failing input iterator /
never-completing task with timeout), inside and outside a with block, explored under the
controlled scheduler with pool-like (pending work dropped on abort) and zombie (late
completions delivered at any later point, including during the next call) environments.
"""

import itertools

from .. import core, parcommon as PC

LEVEL = "model_checking"

CALLS = {
    "O": lambda n: {"n": n},
    "E": lambda n: {"n": 0},
    "J": lambda n: {"n": n, "iter_raises": True, "iter_fail_at": -1},
    "F0": lambda n: {"n": n, "fail": [0]},
    "Fl": lambda n: {"n": n, "fail": [n - 1]},
    "Fa": lambda n: {"n": n, "fail": list(range(n))},
    "F1": lambda n: {"n": n, "fail": [1]},
    "I": lambda n: {"n": n, "iter_fail_at": 1},
    "I0": lambda n: {"n": n, "iter_fail_at": 0},
    "Il": lambda n: {"n": n, "iter_fail_at": n - 1},
    "T": lambda n: {"n": n, "stuck": [1]},
    "Tl": lambda n: {"n": n, "stuck": [n - 1]},
}


def to_scenario(c):
    prog = []
    if c["managed"]:
        prog.append(("enter",))
    gen = c["return_as"] != "list"
    k = 0
    for name in c["calls"]:
        k += 1
        spec = dict(CALLS[name](c["n"]), input="gen")
        prog.append(("call", spec))
        if gen:
            prog.append(("exhaust", k))
    if c["managed"]:
        prog.append(("exit",))
    cfg = dict(n_jobs=c["n_jobs"], batch_size=c["batch_size"], pre_dispatch=c["pre_dispatch"],
               return_as=c["return_as"], order="free", abort=c["abort"], program=prog,
               withhold=(c["abort"] == "zombie"), calls=list(c["calls"]), n=c["n"])
    if "T" in c["calls"] or "Tl" in c["calls"]:
        cfg["timeout"] = 0.05
    return cfg


def judge(cfg, obs):
    env = obs.env
    ra = cfg["return_as"]
    gen = ra != "list"
    n = cfg["n"]
    bad = []
    if obs.verdict in ("deadlock", "hang"):
        last = [r for r in obs.steps if r["kind"] in ("call", "exhaust")]
        which = last[-1].get("call_no") if last else None
        name = cfg["calls"][which - 1] if which else "?"
        return [("%s|after-%s" % (obs.verdict, name), "call %s (%s) of the program %s never terminates (%s): steps %r" % (
            which, name, cfg["calls"], obs.verdict, [PC._step_view(r) for r in obs.steps]))]
    # collect per call outcome
    per = {}
    for r in obs.steps:
        if r["kind"] in ("enter", "exit"):
            if "exc" in r:
                bad.append(("exception-in-%s:%s" % (r["kind"], r["exc"][0]), "%s raised %r" % (r["kind"], r["exc"])))
            continue
        if r["kind"] in ("harness", "completer"):
            bad.append(("exception-in-callback-thread:%s" % r["exc"][0], "the completion-callback thread died with %r" % (r["exc"],)))
            continue
        c = r.get("call_no")
        d = per.setdefault(c, {})
        if "exc" in r and "exc" not in d:
            d["exc"] = r["exc"]
        if r["kind"] == "call" and not gen and "result" in r:
            d["result"] = r["result"]
        if r["kind"] == "exhaust" and "got" in r:
            d["result"] = r["got"]
    for idx, name in enumerate(cfg["calls"]):
        c = idx + 1
        d = per.get(c, {})
        spec = CALLS[name](n)
        prev = "first" if idx == 0 else "after-" + cfg["calls"][idx - 1]
        executed = [i for (cc, i) in env.exec_log if cc == c]
        if name in ("O", "E"):
            want = [("r", c, i) for i in range(spec["n"])]
            if "exc" in d:
                bad.append(("ok-call-raises:%s|%s" % (d["exc"][0], prev), "call %d (ok, %s) raised %s%r" % (c, prev, d["exc"][0], d["exc"][1])))
            elif (sorted(d.get("result") or [], key=repr) if ra == "generator_unordered" else d.get("result")) != (sorted(want, key=repr) if ra == "generator_unordered" else want):
                got = d.get("result")
                foreign = [x for x in (got or []) if not (isinstance(x, tuple) and len(x) == 3 and x[1] == c)]
                kind = "foreign-result" if foreign else "wrong-result"
                bad.append(("%s|%s" % (kind, prev), "call %d (ok, %s) returned %r instead of %r" % (c, prev, got, want)))
            if sorted(executed) != list(range(spec["n"])) and "exc" not in d:
                bad.append(("ok-call-tasks-not-once|%s" % prev, "call %d executed its tasks %r (expected each of 0..%d once)" % (c, executed, n - 1)))
        else:
            if "exc" not in d:
                if "result" in d and (not gen or len(d["result"]) >= 0):
                    bad.append(("failure-swallowed|%s" % name, "call %d (%s) returned %r instead of raising" % (c, name, d.get("result"))))
                continue
            et, ea = d["exc"]
            if "fail" in spec:
                ok = et == "Boom" and len(ea) == 3 and ea[0] == "'task'" and ea[1] == repr(c) and \
                    int(ea[2]) in spec["fail"] and int(ea[2]) in executed
                if not ok:
                    bad.append(("wrong-exception:%s|%s" % (et, name), "call %d (%s) raised %s%r, not the exception of one of its failing executed tasks %r" % (c, name, et, ea, spec["fail"])))
            elif "iter_fail_at" in spec:
                ok = et == "Boom" and ea == ("'iterator'", repr(c), repr(spec["iter_fail_at"]))
                if not ok:
                    bad.append(("wrong-exception:%s|%s" % (et, name), "call %d (%s) raised %s%r instead of the iterator's exception" % (c, name, et, ea)))
            elif "stuck" in spec:
                if et != "TimeoutError":
                    bad.append(("wrong-exception:%s|%s" % (et, name), "call %d (%s) raised %s%r instead of TimeoutError" % (c, name, et, ea)))
    # leftovers: a batch of an earlier call submitted while a later call is the current one
    for e in env.events:
        if e[0] == "submit":
            ph = e[3]
            if ph is not None and ph[0] != e[1]:
                bad.append(("leftover-dispatched", "a batch %r of call %d was submitted during call %d" % (e[2], e[1], ph[0])))
                break
    if getattr(env.parallel, "_running", False):
        bad.append(("still-running", "Parallel._running is True after the program ended"))
    return bad


def _work(unit):
    (c, bounds, max_execs), shard = unit
    cfg = to_scenario(c)
    st = PC.explore_config(cfg, bounds, judge, max_execs=max_execs, shard=shard)
    res = st.result()
    res["shard_nonzero"] = bool(shard and shard[0])
    res["sample"] = {"config": c, "bounds(pb,eb,ob,joint)": list(bounds), "executions": st.execs,
                     "distinct_outcomes": len(st.outcomes)}
    return res


def plan(ctx):
    quick = ctx.tier == "quick"
    fails = ["F0", "Fl", "Fa", "F1", "I", "I0", "Il", "T", "Tl", "J"]
    progs = [("O", "O")] + [(f, "O") for f in fails]
    if not quick:
        progs += [(f, g, "O") for f in ("F0", "Fl", "I", "T", "Tl") for g in ("F0", "I", "T", "O")]
        progs += [("O", f, "O") for f in ("F0", "T")]
        progs += [(f, "E", "O") for f in ("F0", "F1", "Fl", "I", "Il", "T")] + [("E", "O"), ("E", "E", "O")]
    else:
        progs += [("F0", "F0", "O"), ("F0", "T", "O"), ("O", "F1", "O"), ("F0", "E", "O"), ("I", "E", "O"), ("E", "O")]
    configs = []
    for nj, bs, pre, ra, ab, managed, calls in itertools.product(
            PC.N_JOBS, (1, 2), (1, "n_jobs", "2*n_jobs", 3, "all"), ("list", "generator", "generator_unordered"), ("drop", "zombie"),
            (False, True), progs):
        configs.append(dict(n_jobs=nj, batch_size=bs, pre_dispatch=pre, return_as=ra, abort=ab, managed=managed,
                            calls=calls, n=(3 if len(calls) >= 3 else 4) if quick else 5))
    items = []
    if quick:
        fields = ["n_jobs", "batch_size", "pre_dispatch", "return_as", "abort", "managed", "calls"]
        cover, rest = PC.pairwise_cover(configs, fields)
        sel = cover + PC.rotate_slice(rest, ctx.seed, 120)
        for c in sel:
            # the withhold decision of the zombie environment needs a second deviation to land inside the next call
            items.append((c, (1, 1, 1, 2, 1) if c["abort"] == "zombie" else (1, 1, 1, 1, 1), 60000))
    else:
        # the pairwise-covering set and a VERIF_SEED-rotated 1/48 of the full product (N=5, all 3-call programs) at the
        # quick bounds.  Deeper bounds were tried (two order deviations, three environment deviations): neither the full
        # product nor the covering set alone finished within 75 minutes on 16 cores, nor did a twelfth of the product at the quick bounds within 60.
        fields = ["n_jobs", "batch_size", "pre_dispatch", "return_as", "abort", "managed", "calls"]
        cover, rest = PC.pairwise_cover(configs, fields)
        for c in cover:
            items.append((c, (1, 1, 1, 2, 1) if c["abort"] == "zombie" else (1, 1, 1, 1, 1), 100000))
        for c in PC.rotate_slice(rest, ctx.seed, 48):
            items.append((c, (1, 1, 1, 2, 1) if c["abort"] == "zombie" else (1, 1, 1, 1, 1), 100000))
    items.sort(key=lambda it: -len(it[0]["calls"]))
    return PC.shard_items(items, lambda it: len(it[0]["calls"]), 2, nshards=6 if quick else 4)


def run(ctx):
    items = plan(ctx)
    tot, outcomes, verdicts = PC.run_items(ctx, items, _work, sample_every=max(1, len(items) // 4))
    from .. import realpar
    real = realpar.run_real(ctx, realpar.programs_c04(ctx.tier), "C04", nchunks=5)
    ctx.sample({"real_backend_part": "threading / loky / multiprocessing x batch_size x pre_dispatch x return_as x {task 0 / middle / last fails, "
                                     "input iterator fails at step 0 / 3}, then a second call on the same object; one OS-chosen schedule each", **real})
    ctx.rule = ("programs of 2-3 calls on one Parallel object over {ok, failing task at first/second/last/all positions, "
                "failing input iterator at first/second/last step, never-completing task + timeout} x n_jobs x batch_size x "
                "pre_dispatch x return_as x with-block or not x {pending work dropped on abort, zombie completions that the "
                "environment may withhold and deliver later}; all schedules within the bounds in samples. quick = pairwise "
                "cover + seed-rotated 1/120 of the rest; thorough = pairwise cover + a seed-rotated 1/48 of the full product with N=5 and all 3-call programs, same bounds. distinct_nontrivial = distinct outcomes")
    ctx.exhaustive = True
    ctx.assumptions += ["same environment model and granularity as C01",
                        "real-backend part: configuration space exhaustive, schedules chosen by the OS; binds the environment model to the shipped backends",
                        "zombie batches run their tasks when the environment completes them; such late executions are not counted against the later call"]
    return {"states": tot["states"], "transitions": tot["transitions"],
            "traces_validated_against_impl": tot["execs"], "evaluations": tot["execs"],
            "distinct_nontrivial": len(outcomes), "configurations": tot["configs"],
            "scheduling_points_executed": tot["points"], "verdicts": dict(verdicts), **real}


def replay(data):
    if data.get("part") == "real":
        from .. import realpar
        rc = realpar.replay_real(data)
        if rc:
            print("VIOLATION property=C04 replay=<this file>")
        return rc
    from .. import parharness as H
    cfg = data["cfg"]
    cfg["program"] = [tuple(s) for s in cfg["program"]]
    obs = H.run_scenario(cfg, data["choices"])
    obs2 = H.run_scenario(cfg, data["choices"])
    b, b2 = judge(cfg, obs), judge(cfg, obs2)
    print("replay verdict:", obs.verdict)
    for r in obs.steps:
        print("  step", PC._step_view(r))
    for line in PC.describe_switches(obs.sched):
        print("  ", line)
    if [x[0] for x in b] != [x[0] for x in b2]:
        print("HARNESS-ERROR: replay is not deterministic")
        return 2
    for sig, msg in b:
        print(sig, msg)
    if b:
        print("VIOLATION property=C04 replay=<this file>")
        return 1
    return 0
