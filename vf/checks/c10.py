"""C10 - a dying loky worker yields a prompt error, never a hang, and workers heal.

Fault enumeration on real processes: kill instant (argument unpickling, after the task was
fetched, task start, mid-task, after the run, during result pickling, mid-send with the queue
write lock held and half a frame written, after the send, idle between calls) x signal x
victims (first arriving worker / every worker) x n_jobs x with-block or not x return_as x call
histories.  Kill points inside joblib's vendored loky are the guarded hook calls of
joblib/_verif_hooks.py (JOBLIB_VERIF_HOOKS).  Every scenario runs in its own session with
file-redirected stdio and is killed as a process group afterwards.
"""

import itertools
import json
import os
import shutil
import signal
import subprocess
import sys
import time

from .. import core

LEVEL = "fault_enumeration"

POINTS = ["unpickle-args", "worker.after_get", "task-start", "mid-task", "worker.after_run", "pickle-result",
          "queue.in_send", "worker.after_send"]
# SIGRTMIN+1: a real-time signal without a member in signal.Signals (the exit code has no symbolic name)
ACTIONS = ["SIGKILL", "SIGTERM", "SIGSEGV", "exit0", "exit1", "SIGRTMIN+1", "SIGABRT"]
STARTUP_POINTS = ["executor.reuse.before_check", "executor.resize.enter", "executor.resize.before_shrink_wait",
                  "executor.resize.after_adjust"]
CALL_WALL_LIMIT = 20.0
MODE_FOR = {"unpickle-args": "unpickle-args", "mid-task": "mid", "pickle-result": "pickle-result"}


def scenarios(tier, seed):
    out = []
    quick = tier == "quick"
    # [fault, ok]: every point x action x victims, n_jobs=2
    for point, action, victims in itertools.product(POINTS, ACTIONS, ("first", "all")):
        if quick and action in ("exit0", "SIGTERM", "SIGABRT", "SIGRTMIN+1") and victims == "all":
            continue
        out.append(dict(n_jobs=2, managed=False, return_as="list", hist="fault,ok", point=point, action=action, victims=victims))
    # variants: with-block, generator, n_jobs=3, repeated faults, idle kills
    for point in POINTS:
        for managed, ra, nj in ((True, "list", 2), (False, "generator", 2), (True, "generator", 3), (False, "list", 3)):
            out.append(dict(n_jobs=nj, managed=managed, return_as=ra, hist="fault,ok", point=point, action="SIGKILL", victims="first"))
        out.append(dict(n_jobs=2, managed=True, return_as="list", hist="fault,fault,ok", point=point, action="SIGKILL", victims="first"))
        out.append(dict(n_jobs=2, managed=False, return_as="list", hist="ok,fault,ok,ok", point=point, action="SIGSEGV", victims="first"))
    for action, victims, managed in itertools.product(("SIGKILL", "SIGSEGV", "SIGRTMIN+1") if quick else ACTIONS[:3] + ["SIGRTMIN+1", "SIGABRT"], ("first", "all"), (False, True)):
        out.append(dict(n_jobs=2, managed=managed, return_as="list", hist="ok,idle,ok,ok", point="idle", action=action, victims=victims))
        if not quick:
            out.append(dict(n_jobs=3, managed=managed, return_as="generator", hist="ok,idle,ok,ok", point="idle", action=action, victims=victims))
    # a worker dying during the next call's start-up (executor re-use check / resize to another n_jobs)
    startup = []
    for point, (nj_seq, shape), action, victims in itertools.product(
            STARTUP_POINTS, (((2, 3, 3, 3), "grow"), ((3, 2, 2, 2), "shrink"), ((2, 2, 2, 2), "same")),
            ("SIGKILL",) if quick else ("SIGKILL", "SIGSEGV", "SIGTERM"), ("first", "all")):
        if shape == "same" and point != "executor.reuse.before_check":
            continue        # no resize when n_jobs is unchanged
        startup.append(dict(n_jobs=nj_seq[0], n_jobs_seq=list(nj_seq), managed=False, return_as="list", hist="ok,fault,ok,ok",
                            point=point, action=action, victims=victims, shape=shape))
    if quick:
        from ..parcommon import rotate_slice
        must = startup + [s for s in out if s["victims"] == "first" and s["hist"] in ("fault,ok", "ok,idle,ok,ok")
                and s["n_jobs"] == 2 and not s["managed"] and s["return_as"] == "list"
                and (s["action"] == "SIGKILL" or (s["action"] in ("exit0", "exit1") and s["point"] in ("task-start", "mid-task", "worker.after_run"))
                     or (s["action"] in ("SIGRTMIN+1", "SIGABRT") and s["point"] in ("mid-task", "idle")))]
        rest = [s for s in out if s not in must and s not in startup]
        out = must + rotate_slice(rest, seed, 3)
    else:
        out = out + startup
    return out


def build(s, d):
    """spec + plan for a scenario."""
    calls = []
    faults = []
    mode = MODE_FOR.get(s["point"], "plain")
    for k, h in enumerate(s["hist"].split(",")):
        if h == "ok":
            calls.append({"n": 5, "mode": mode if s["point"] != "idle" else "plain"})
        elif h == "fault":
            calls.append({"n": 6, "mode": mode})
            faults.append({"call": k, "point": s["point"], "victims": s["victims"], "action": s["action"]})
        if "n_jobs_seq" in s:
            calls[-1]["n_jobs"] = s["n_jobs_seq"][k]
        elif h == "idle":
            calls.append({"kind": "idle-kill", "victims": s["victims"], "action": s["action"] if s["action"].startswith("SIG") else "SIGKILL"})
    spec = {"n_jobs": s["n_jobs"], "managed": s["managed"], "return_as": s["return_as"], "calls": calls}
    plan = {"dir": d, "faults": faults}
    return spec, plan


def run_scenario(s):
    d = core.scratch_dir("c10-%d" % os.getpid())
    spec, plan = build(s, d)
    with open(os.path.join(d, "spec.json"), "w") as f:
        json.dump(spec, f)
    env = dict(os.environ)
    env["VF_C10_PLAN"] = json.dumps(plan)
    env["JOBLIB_VERIF_HOOKS"] = os.path.join(core.ROOT, "vf", "c10_handlers.py")
    env["PYTHONPATH"] = "%s:%s" % (core.REPO, core.ROOT)
    env.pop("PYTHONDONTWRITEBYTECODE", None)
    env["PYTHONPYCACHEPREFIX"] = "/dev/shm/vf-pycache"
    env["PYTHONFAULTHANDLER"] = "0"
    env["JOBLIB_TEMP_FOLDER"] = d
    ncalls = len(spec["calls"])
    budget = CALL_WALL_LIMIT * ncalls + 20
    out = open(os.path.join(d, "out.txt"), "wb")
    res_path = os.path.join(d, "result.json")
    t0 = time.time()
    proc = subprocess.Popen([sys.executable, "-m", "vf.c10_scenario", os.path.join(d, "spec.json"), res_path],
                            stdin=subprocess.DEVNULL, stdout=out, stderr=out, env=env, cwd=core.ROOT, start_new_session=True)
    timed_out = False
    try:
        # per-call watchdog: the scenario rewrites result.json when a call starts and when it ends
        call_started = None
        seen_calls = -1
        while True:
            try:
                proc.wait(timeout=0.25)
                break
            except subprocess.TimeoutExpired:
                pass
            now = time.time()
            if now - t0 > budget:
                timed_out = True
                break
            try:
                with open(res_path) as f:
                    cur = json.load(f).get("calls", [])
            except (OSError, ValueError):
                cur = []
            open_calls = [c for c in cur if c.get("kind") == "call" and "wall" not in c]
            if len(cur) != seen_calls:
                seen_calls = len(cur)
                call_started = now
            if open_calls and call_started is not None and now - call_started > CALL_WALL_LIMIT:
                timed_out = True
                break
    finally:
        try:
            os.killpg(proc.pid, signal.SIGKILL)
        except OSError:
            pass
        try:
            proc.wait(timeout=10)
        except Exception:  # noqa
            pass
        out.close()
    wall = time.time() - t0
    result = None
    try:
        with open(res_path) as f:
            result = json.load(f)
    except (OSError, ValueError):
        pass
    pids = set()
    for fn in ("pids", "deaths"):
        try:
            for line in open(os.path.join(d, fn)):
                pids.add(int(line.split()[0]))
        except (OSError, ValueError):
            pass
    for fn in os.listdir(d):
        if fn.startswith("arrive-"):
            try:
                pids.add(int(open(os.path.join(d, fn)).read() or 0))
            except (OSError, ValueError):
                pass
    if result:
        pids.add(result.get("pid", 0))
    _cleanup_shm(pids | {proc.pid})
    tail = ""
    try:
        with open(os.path.join(d, "out.txt"), "rb") as f:
            tail = f.read()[-600:].decode("utf-8", "replace")
    except OSError:
        pass
    shutil.rmtree(d, ignore_errors=True)
    return result, timed_out, wall, tail


def _cleanup_shm(pids):
    """A killed resource tracker cannot clean up: remove the semaphores / folders of the pids we started."""
    try:
        names = os.listdir("/dev/shm")
    except OSError:
        return
    for n in names:
        for pid in pids:
            if pid and (n.startswith("sem.loky-%d-" % pid) or n.startswith("joblib_memmapping_folder_%d_" % pid)):
                p = os.path.join("/dev/shm", n)
                try:
                    if os.path.isdir(p):
                        shutil.rmtree(p, ignore_errors=True)
                    else:
                        os.unlink(p)
                except OSError:
                    pass


def judge(s, result, timed_out, tail):
    """List of (signature, message)."""
    hist = s["hist"].split(",")
    tag = "%s|%s" % (s["point"], s["hist"]) + ("|" + s["shape"] if s.get("shape") else "")
    bad = []
    calls = result["calls"] if result else []
    done = any(c.get("kind") == "done" for c in calls)
    recs = [c for c in calls if c.get("kind") in ("call", "idle-kill")]
    if timed_out or not done:
        # which call was in progress?
        k = len(recs) - 1
        state = "call #%d (%s) never returned" % (k, hist[k] if 0 <= k < len(hist) else "?")
        unfinished = [c for c in recs if c.get("kind") == "call" and "wall" not in c]
        if not unfinished and not timed_out:
            state = "the scenario process died: %s" % tail[-200:].replace("\n", " | ")
            return [("scenario-crashed|%s" % tag, state)]
        return [("hang|%s|%s" % (tag, "after-" + hist[k] if 0 <= k < len(hist) else "?"), "%s within %.0f s (history %s, kill at %s with %s, victims %s)" % (
            state, CALL_WALL_LIMIT, s["hist"], s["point"], s["action"], s["victims"]))]
    nfaults = sum(1 for h in hist if h in ("fault", "idle"))
    failed = 0
    faults_so_far = 0
    for k, (h, c) in enumerate(zip(hist, recs)):
        if h == "idle":
            faults_so_far += 1
            continue
        if h == "fault":
            faults_so_far += 1
        if c.get("wall", 0) > CALL_WALL_LIMIT:
            bad.append(("slow|%s" % tag, "call #%d took %.1f s" % (k, c["wall"])))
        if "exc" in c:
            failed += 1
            if not c.get("broken_pool_family"):
                bad.append(("wrong-exception:%s|%s" % (c["exc"], tag), "call #%d (%s) raised %s: %s" % (k, h, c["exc"], c.get("msg", "")[:200])))
            if failed > faults_so_far:
                bad.append(("more-failures-than-faults|%s" % tag, "call #%d (%s) failed although only %d fault(s) had been injected and %d call(s) already failed: %s" % (
                    k, h, faults_so_far, failed - 1, c.get("msg", "")[:160])))
        else:
            if not c.get("ok"):
                bad.append(("wrong-result|%s" % tag, "call #%d (%s) returned %r" % (k, h, c.get("result"))))
    # the last call of every history is an 'ok' call with no fault pending more than one call back: it must succeed
    last = recs[-1] if recs else None
    if last is not None and hist[len(recs) - 1] == "ok" and "exc" in last and len(recs) >= 2 and hist[len(recs) - 2] == "ok":
        bad.append(("not-healed|%s" % tag, "the second call after the fault still failed: %s" % last.get("msg", "")[:160]))
    return bad


def _work(s):
    result, timed_out, wall, tail = run_scenario(s)
    bad = judge(s, result, timed_out, tail)
    if bad and any(b[0].startswith(("hang", "scenario-crashed", "slow")) for b in bad):
        # re-run once before reporting a watchdog verdict
        result2, timed_out2, wall2, tail2 = run_scenario(s)
        bad2 = judge(s, result2, timed_out2, tail2)
        if not bad2:
            bad = [("flaky-watchdog|%s" % s["point"], "first run: %r; second run clean" % (bad[0][1],))] if False else []
        else:
            bad = bad2
    outcome = "/".join(("X" if "exc" in c else "ok") for c in (result["calls"] if result else []) if c.get("kind") == "call")
    return {"s": s, "bad": bad, "wall": wall, "outcome": "%s:%s" % (s["point"], outcome if not timed_out else "TIMEOUT")}


def run(ctx):
    scen = scenarios(ctx.tier, ctx.seed)
    # the pycache prefix must exist before many interpreters race to create it
    os.makedirs("/dev/shm/vf-pycache", exist_ok=True)
    n = 0
    outcomes = set()
    walls = []
    for res in core.pmap(_work, scen, nproc=max(2, core.NPROC // 2)):
        n += 1
        outcomes.add(res["outcome"])
        walls.append(res["wall"])
        for sig, msg in res["bad"]:
            ctx.violation(sig, msg, {"scenario": res["s"]})
        if n % max(1, len(scen) // 5) == 1:
            ctx.sample({"scenario": res["s"], "outcome": res["outcome"], "wall_s": round(res["wall"], 2)})
    ctx.rule = ("real-process scenarios: kill point in %s + idle x action in %s x victims {first arriving worker, every worker} x n_jobs {2,3} "
                "x with-block x return_as x histories {fault,ok | fault,fault,ok | ok,fault,ok,ok | ok,idle,ok,ok}; quick = SIGKILL/first "
                "base grid + a VERIF_SEED-rotated third of the rest. Oracle: every call returns within %d s with the exact results or a "
                "BrokenProcessPool-family error, failed calls <= injected faults, the second call after a fault succeeds. "
                "distinct_nontrivial = distinct (kill point, per-call outcome) vectors" % (POINTS, ACTIONS, CALL_WALL_LIMIT))
    ctx.exhaustive = True
    ctx.assumptions += ["the operating system's scheduling inside a scenario is not controlled; kill instants are pinned by hook points (arrival order across workers decides the victim)",
                        "a watchdog verdict (hang / slow) is re-run once before it is reported",
                        "interleavings of loky's manager, feeder and caller threads in the parent are not enumerated"]
    return {"evaluations": n, "distinct_nontrivial": len(outcomes), "scenarios": n, "max_scenario_wall_s": round(max(walls), 1) if walls else 0,
            "outcome_vectors": sorted(outcomes)[:40]}


def replay(data):
    res = _work(data["scenario"])
    print(res["outcome"], res["bad"])
    if res["bad"]:
        print("VIOLATION property=C10 replay=<this file>")
        return 1
    return 0
