"""strace witness for the file-system seam (E3).

The crash / interleaving checks (C05, C11) see the file system only through vf.fsmon.  This module
validates that seam against the kernel's view: the same workload is run once under the seam (log of
mutating events with their paths) and once, without the seam, under `strace -f -y`; every mutating
system call on a path inside the cache directory must have a seam event of the same class on the
same file name (shutil.rmtree passes names relative to directory descriptors, so events are compared by
(class, base name)), and the unbuffered effects (create/truncate-open, rename, unlink, mkdir, rmdir, utime)
must appear in the same order in both traces.  Buffered writes may reach the kernel at a later
seam event of the same file (flush / close), so for `write` only coverage is required.

A mismatch is a harness error (the seam is incomplete), never a verdict about joblib.
"""

import json
import os
import re
import shutil
import subprocess
import sys

from . import core

CLASS_OF_SEAM = {"io.open": "open", "open": "open", "replace": "rename", "rename": "rename", "unlink": "unlink",
                 "remove": "unlink", "mkdir": "mkdir", "rmdir": "rmdir", "utime": "utime", "truncate": "truncate",
                 "f.truncate": "truncate", "f.write": "write", "f.writelines": "write", "f.flush": "write", "f.close": "write",
                 "chmod": "chmod", "link": "link", "symlink": "link"}


def _child(argv):
    wl, base, order, mode, out = argv
    from .checks import c05
    res = c05.run_workload((wl, base, order, mode))
    with open(out, "w") as f:
        json.dump(res, f)


_SYSCALL = re.compile(r"^(?:\d+\s+)?(\w+)\((.*)$")


def parse_strace(path, cache, base):
    """[(class, path)] of mutating calls on paths under `cache`, between the BEGIN / END markers."""
    out = []
    on = False
    for line in open(path, errors="replace"):
        m = _SYSCALL.match(line.strip())
        if not m:
            continue
        name, rest = m.group(1), m.group(2)
        if " = -1 " in line and name not in ("mkdir", "mkdirat"):
            continue                      # failed calls change nothing
        if name in ("mkdir", "mkdirat") and "__BEGIN__" in rest:
            on = True
            continue
        if name in ("mkdir", "mkdirat") and "__END__" in rest:
            break
        if not on or " = -1 " in line:
            continue
        strs = re.findall(r'"((?:[^"\\]|\\.)*)"', rest)
        fds = re.findall(r"\d+<([^>]*)>", rest)

        def full(p):
            if p.startswith("/"):
                return p
            # relative to a directory fd (openat(5</dir>, "name")) or to the cwd
            return os.path.join(fds[0], p) if fds else os.path.abspath(p)
        cls = None
        target = None
        if name in ("open", "openat", "creat"):
            flags = rest
            if any(f in flags for f in ("O_WRONLY", "O_RDWR", "O_CREAT", "O_TRUNC", "O_APPEND")) or name == "creat":
                cls, target = "open", full(strs[0]) if strs else None
        elif name in ("write", "pwrite64", "writev"):
            cls, target = "write", fds[0] if fds else None
        elif name in ("rename", "renameat", "renameat2"):
            cls, target = "rename", full(strs[0]) if strs else None
        elif name in ("unlink", "unlinkat"):
            cls, target = ("rmdir" if "AT_REMOVEDIR" in rest else "unlink"), full(strs[0]) if strs else None
        elif name in ("mkdir", "mkdirat"):
            cls, target = "mkdir", full(strs[0]) if strs else None
        elif name == "rmdir":
            cls, target = "rmdir", full(strs[0]) if strs else None
        elif name in ("utime", "utimes", "utimensat", "futimesat"):
            cls, target = "utime", (full(strs[0]) if strs else (fds[0] if fds else None))
        elif name in ("truncate", "ftruncate"):
            cls, target = "truncate", (full(strs[0]) if strs else (fds[0] if fds else None))
        elif name in ("chmod", "fchmod", "fchmodat", "link", "linkat", "symlink", "symlinkat"):
            cls, target = ("chmod" if "chmod" in name else "link"), (full(strs[-1]) if strs else None)
        if cls and target and os.path.normpath(target).startswith(cache):
            out.append((cls, os.path.basename(os.path.normpath(target))))
    return out


def witness(workloads=("W1-cold", "W3-source-changed", "W6-compressed", "W7-reduce_size", "W8-clear")):
    """Returns (counters, problems).  problems == None when strace is unusable here."""
    if not shutil.which("strace"):
        return {"strace": "not installed"}, None
    root = core.scratch_dir("fswitness")
    env = dict(os.environ)
    env["PYTHONPATH"] = "%s:%s" % (core.REPO, core.ROOT)
    counters = {"workloads": 0, "syscalls_matched": 0, "seam_events": 0, "ordered_effects": 0}
    problems = []
    for wl in workloads:
        traces = {}
        for mode in ("log", "bare"):
            base = os.path.join(root, "%s-%s" % (wl, mode))
            os.makedirs(base)
            out = os.path.join(base, "result.json")
            cmd = [sys.executable, "-c", "import sys; from vf.fswitness import _child; _child(sys.argv[1:])", wl, base, "asc", mode, out]
            if mode == "bare":
                st = os.path.join(base, "strace.txt")
                cmd = ["strace", "-f", "-y", "-s", "400", "-o", st,
                       "-e", "trace=open,openat,creat,write,pwrite64,writev,rename,renameat,renameat2,unlink,unlinkat,mkdir,mkdirat,rmdir,"
                             "utime,utimes,utimensat,futimesat,truncate,ftruncate,chmod,fchmod,fchmodat,link,linkat,symlink,symlinkat"] + cmd
            r = subprocess.run(cmd, env=env, cwd=core.ROOT, stdin=subprocess.DEVNULL, stdout=subprocess.DEVNULL, stderr=subprocess.PIPE, text=True)
            if r.returncode != 0 or not os.path.exists(out):
                if mode == "bare" and ("ptrace" in r.stderr or "PTRACE" in r.stderr or "Operation not permitted" in r.stderr):
                    shutil.rmtree(root, ignore_errors=True)
                    return {"strace": "ptrace not permitted: %s" % r.stderr.strip()[:120]}, None
                raise core.HarnessError("fswitness child failed (%s, %s): %s" % (wl, mode, r.stderr[-300:]))
            res = json.load(open(out))
            cache = os.path.realpath(res["cache"])
            if mode == "log":
                seam = []
                for name, p in res["seam_log"]:
                    cls = CLASS_OF_SEAM.get(name)
                    if cls is None or p is None:
                        continue
                    if os.path.isabs(p):
                        rp = os.path.normpath(os.path.realpath(p))
                        if rp.startswith(cache):
                            seam.append((cls, os.path.basename(rp)))
                    else:
                        # shutil.rmtree works relative to directory descriptors (unlink(name, dir_fd=...)): the seam
                        # sees the call and its name, the directory is only known to the kernel trace
                        seam.append((cls, os.path.basename(os.path.normpath(p))))
                traces["seam"] = seam
            else:
                traces["kernel"] = parse_strace(os.path.join(base, "strace.txt"), cache, base)
        # temporary file names carry the pid / a random suffix: compare modulo those
        def norm(p):
            p = re.sub(r"\.thread-\d+-pid-\d+", ".thread-T-pid-P", p)
            p = re.sub(r"[0-9a-f]{32}", "<hash>", p) if False else p
            return p
        seam = [(c, norm(p)) for c, p in traces["seam"]]
        kern = [(c, norm(p)) for c, p in traces["kernel"]]
        counters["workloads"] += 1
        counters["seam_events"] += len(seam)
        seam_set = set(seam)
        for c, p in kern:
            if (c, p) in seam_set:
                counters["syscalls_matched"] += 1
            else:
                problems.append("%s: system call class %s on %s has no seam event" % (wl, c, p))
        order_classes = ("open", "rename", "unlink", "mkdir", "rmdir", "utime", "truncate")

        def dedup(seq):
            out = []
            for x in seq:
                if x[0] in order_classes and (not out or out[-1] != x):
                    out.append(x)
            return out
        # seam events for calls that fail (e.g. mkdir of an existing directory, unlink of a missing file) have no
        # kernel effect: the kernel sequence must be a subsequence of the seam sequence
        ks, ss = dedup(kern), dedup(seam)
        i = 0
        for x in ss:
            if i < len(ks) and ks[i] == x:
                i += 1
        counters["ordered_effects"] += i
        if i < len(ks):
            problems.append("%s: kernel effect #%d %r is out of order with respect to the seam log (seam: %r)" % (wl, i, ks[i], ss[:40]))
    shutil.rmtree(root, ignore_errors=True)
    return counters, problems


if __name__ == "__main__":
    c, p = witness()
    print(json.dumps(c))
    for x in (p or []):
        print("PROBLEM", x)
    sys.exit(1 if p else 0)
