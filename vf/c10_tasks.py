"""Task functions / objects of the C10 scenarios (imported by reference in the loky workers)."""
import json
import os
import time


class KillOnUnpickle:
    """Task argument whose un-pickling (in the worker) kills the process if the plan says so."""

    def __init__(self, tag):
        self.tag = tag

    def __reduce__(self):
        return (_maybe_die_unpickle, (self.tag,))


def _maybe_die_unpickle(tag):
    act = _should_die("unpickle-args")
    if act:
        _die(act)
    return tag


class KillOnPickle:
    """Task result whose pickling (in the worker, while sending the result) kills the process."""

    def __init__(self, v):
        self.v = v

    def __reduce__(self):
        act = _should_die("pickle-result")
        if act:
            _die(act)
        return (int, (self.v,))


def _handlers():
    ns = {"__name__": "h"}
    path = os.environ["JOBLIB_VERIF_HOOKS"]
    with open(path) as f:
        exec(compile(f.read(), path, "exec"), ns)
    return ns


_NS = None


def _should_die(point):
    global _NS
    if _NS is None:
        _NS = _handlers()
    return _NS["should_die"](point)


def _die(act):
    _NS["die"](act)


def task(i, arg, mode):
    """Runs in a worker. Reports its pid; dies according to the plan."""
    d = json.loads(os.environ["VF_C10_PLAN"])["dir"]
    with open(os.path.join(d, "pids"), "a") as f:
        f.write("%d\n" % os.getpid())
    act = _should_die("task-start")
    if act:
        _die(act)
    if mode == "mid":
        time.sleep(0.05)
        act = _should_die("mid-task")
        if act:
            _die(act)
        time.sleep(0.05)
    if mode == "pickle-result":
        return KillOnPickle(i * i)
    return i * i


