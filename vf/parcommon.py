"""Shared pieces of the Parallel model-checking checks (C01, C04, C09, C16)."""

import collections
import itertools
import json
import random

from . import core

N_JOBS = (2, 3)
BATCH = (1, 2, 3, "auto")
# 0 and "n_jobs-2" (0 for n_jobs=2): an amount below one batch cannot mean "dispatch nothing, return []"
PRE = (0, 1, 2, 3, "all", "n_jobs", "2*n_jobs", "1.5*n_jobs", "n_jobs-2")


def resolve_pre(pre, n_jobs):
    if pre == "all":
        return None
    if isinstance(pre, str):
        return max(1, int(eval(pre.replace("n_jobs", str(n_jobs)))))
    return max(1, int(pre))


def cfg_key(cfg):
    return json.dumps(cfg, sort_keys=True, default=repr)


def pairwise_cover(configs, fields):
    """Greedy subset of configs covering every pair of (field, value) combinations present."""
    def pairs(c):
        vals = [(f, repr(c[f])) for f in fields]
        return set(itertools.combinations(vals, 2))
    need = set()
    allp = []
    for c in configs:
        p = pairs(c)
        allp.append(p)
        need |= p
    chosen = []
    remaining = list(range(len(configs)))
    while need:
        best = max(remaining, key=lambda i: len(allp[i] & need))
        gain = allp[best] & need
        if not gain:
            break
        need -= gain
        chosen.append(best)
        remaining.remove(best)
    return [configs[i] for i in chosen], [configs[i] for i in remaining]


def rotate_slice(items, seed, parts):
    """Deterministic 1/parts slice of items selected by seed (covers everything over `parts` seeds)."""
    if parts <= 1:
        return list(items)
    rnd = random.Random(12345)
    idx = list(range(len(items)))
    rnd.shuffle(idx)
    k = seed % parts
    return [items[i] for i in sorted(idx[k::parts])]


def make_allowed(pb, eb, ob, joint=None, joint_po=None):
    """allowed(pb', eb', ob') for the Explorer.  joint = max total deviations (None: no joint limit);
    joint_po = max pre-emptions + order deviations together (None: no limit)."""
    def allowed(p, e, o):
        if p > pb or e > eb or o > ob:
            return False
        if joint is not None and p + e + o > joint:
            return False
        if joint_po is not None and p + o > joint_po:
            return False
        return True
    return allowed


class ExploreStats:
    def __init__(self):
        self.execs = 0
        self.points = 0
        self.fps = set()
        self.edges = set()
        self.outcomes = collections.Counter()
        self.verdicts = collections.Counter()
        self.viol = {}
        self.caps = []
        self.max_decisions = 0
        self.divergences = 0

    def add_violation(self, signature, message, replay):
        v = self.viol.get(signature)
        if v is None:
            self.viol[signature] = [signature, message, replay, 1]
        else:
            v[3] += 1
            if len(replay.get("choices", ())) < len(v[2].get("choices", ())):
                v[1], v[2] = message, replay

    def result(self):
        return {"execs": self.execs, "points": self.points, "states": len(self.fps), "transitions": len(self.edges),
                "outcomes": dict(self.outcomes), "verdicts": dict(self.verdicts),
                "viol": list(self.viol.values()), "caps": self.caps, "max_decisions": self.max_decisions}


def describe_switches(sched, limit=60):
    out = []
    for n, a, b, where in sched.switch_trace[:limit]:
        out.append("point %d: %s -> %s at %s" % (n, a, b, where if isinstance(where, str) else "%s:%s" % where))
    return out


def explore_config(cfg, bounds, judge, max_execs=None, sample_states_every=8, shard=None):
    """Explore one scenario; judge(obs) -> list of (signature, message) for a single execution."""
    from . import parharness as H, pysched
    st = ExploreStats()

    def run(choices, expect):
        s_rec = (st.execs % sample_states_every == 0)
        obs = H.run_scenario(cfg, choices, expect, record_states=s_rec)
        return obs

    def on_exec(obs, prefix):
        st.execs += 1
        s = obs.sched
        st.points += s.npoints
        if s.fps:
            st.fps |= s.fps
            st.edges |= s.edges
        st.verdicts[obs.verdict] += 1
        if obs.verdict == "divergence":
            st.divergences += 1
            return
        if obs.verdict == "horizon":
            if "horizon" not in st.caps:
                st.caps.append("horizon")
            return
        bad = judge(cfg, obs)
        st.outcomes[outcome_key(obs)] += 1
        for signature, message in bad:
            replay = {"cfg": cfg, "choices": [d.chosen for d in obs.decisions], "verdict": obs.verdict,
                      "switches": describe_switches(s), "steps": [_step_view(r) for r in obs.steps]}
            # trim trailing zeros of the choice list (defaults)
            ch = replay["choices"]
            while ch and ch[-1] == 0:
                ch.pop()
            st.add_violation(signature, message, replay)

    ex = pysched.Explorer(run, make_allowed(*bounds), on_exec, max_execs=max_execs, shard=shard)
    ex.explore()
    if ex.capped:
        st.caps.append("max_execs=%s" % max_execs)
    st.max_decisions = ex.max_decisions
    return st


def _step_view(rec):
    out = {}
    for k, v in rec.items():
        if k in ("error", "exc_obj_type"):
            continue
        out[k] = v
    return out


def outcome_key(obs):
    parts = [obs.verdict]
    for r in obs.steps:
        if "exc" in r:
            parts.append("%s!%s" % (r["kind"], r["exc"][0]))
        elif "result" in r:
            parts.append("%s=%d" % (r["kind"], len(r["result"])))
        elif "got" in r:
            parts.append("%s=%d" % (r["kind"], len(r["got"])))
        else:
            parts.append(r["kind"])
    parts.append(tuple(obs.env.exec_log))
    return repr(parts)


def shard_items(items, cost, threshold, nshards=6):
    """Split costly (item) into nshards work units (item, (k, m)); cheap ones stay whole (item, None)."""
    out = []
    for it in items:
        if cost(it) >= threshold:
            out += [(it, (k, nshards)) for k in range(nshards)]
        else:
            out.append((it, None))
    return out


def run_items(ctx, items, worker, sample_every=50, maxtasks=None):
    """Run explore work items over the pinned fork pool, fold statistics into ctx."""
    tot = collections.Counter()
    outcomes = collections.Counter()
    verdicts = collections.Counter()
    k = 0
    for res in core.pmap(worker, items, chunksize=1, pin=True, maxtasks=maxtasks):
        k += 1
        tot["execs"] += res["execs"]
        tot["points"] += res["points"]
        tot["configs"] += 0 if res.get("shard_nonzero") else 1
        tot["max_decisions"] = max(tot["max_decisions"], res["max_decisions"])
        if not res.get("shard_nonzero"):
            # shards of one configuration revisit the same states: count the first shard only
            tot["states"] += res["states"]
            tot["transitions"] += res["transitions"]
        for o, n in res["outcomes"].items():
            outcomes[o] += n
        for o, n in res["verdicts"].items():
            verdicts[o] += n
        for c in res["caps"]:
            ctx.cap(c)
        for signature, message, replay, cnt in res["viol"]:
            for _ in range(cnt):
                ctx.violation(signature, message, replay)
        if res.get("sample") and (k % sample_every == 1):
            ctx.sample(res["sample"])
    if verdicts.get("stuck"):
        raise core.HarnessError("%d executions got stuck on something the scheduler does not own (real lock / real I/O)" % verdicts["stuck"])
    if verdicts.get("divergence"):
        raise core.HarnessError("%d executions diverged while replaying a prefix" % verdicts["divergence"])
    return tot, outcomes, verdicts
