"""Shared runner pieces: context, evidence writer, known-findings matcher, pools.

Exit codes of a check: 0 = property held on everything explored (known
findings are printed, not alarmed), 1 = at least one violation that
known_findings.json does not list (one ``VIOLATION property=<id> replay=<path>``
line each), 2 = harness error (never a verdict).
"""

import atexit
import hashlib
import json
import multiprocessing
import os
import shutil
import signal
import sys
import time
import traceback

ROOT = os.path.dirname(os.path.dirname(os.path.abspath(__file__)))
REPO = os.environ.get("VERIF_REPO", "/repo")
EVIDENCE_DIR = os.path.join(ROOT, "evidence")
REPLAY_DIR = os.path.join(ROOT, "replays")
KNOWN_FILE = os.path.join(ROOT, "known_findings.json")
NPROC = int(os.environ.get("VERIF_NPROC", "0")) or min(16, os.cpu_count() or 1)


class HarnessError(Exception):
    """Something is wrong with the machinery itself (exit 2, never a verdict)."""


def digest(obj):
    return hashlib.sha1(
        json.dumps(obj, sort_keys=True, default=repr).encode()
    ).hexdigest()[:12]


_SCRATCH = []


def scratch_dir(tag):
    """Private scratch directory (tmpfs when available), removed at exit."""
    base = "/dev/shm" if os.path.isdir("/dev/shm") and os.access("/dev/shm", os.W_OK) else (
        os.environ.get("TMPDIR") or "/tmp")
    _sweep_stale(base)
    path = os.path.join(base, "vf-%d-%s" % (os.getpid(), tag))
    shutil.rmtree(path, ignore_errors=True)
    os.makedirs(path)
    _SCRATCH.append((os.getpid(), path))
    return path


_SWEPT = False


def _sweep_stale(base):
    """Remove scratch directories left behind by checker processes that no longer exist."""
    global _SWEPT
    if _SWEPT:
        return
    _SWEPT = True
    try:
        names = os.listdir(base)
    except OSError:
        return
    for n in names:
        if not n.startswith("vf-"):
            continue
        parts = n.split("-")
        try:
            pid = int(parts[1])
        except (IndexError, ValueError):
            continue
        try:
            os.kill(pid, 0)
        except ProcessLookupError:
            shutil.rmtree(os.path.join(base, n), ignore_errors=True)
        except OSError:
            pass


@atexit.register
def _cleanup():
    for pid, path in _SCRATCH:
        if pid == os.getpid():
            shutil.rmtree(path, ignore_errors=True)


class Ctx:
    """Collects coverage counters, samples and violations for one check run."""

    MAX_REPLAYS_PER_SIGNATURE = 1
    MAX_SAMPLES = 6

    def __init__(self, prop, tier, seed, level):
        self.prop = prop
        self.tier = tier
        self.seed = seed
        self.level = level
        self.t0 = time.time()
        self.counters = {}
        self.distinct = {}
        self.samples = []
        self.by_sig = {}  # signature -> {"count", "message", "replay"}
        self.notes = {}
        self.assumptions = []
        self.caps = []
        self.exhaustive = None
        self.rule = ""
        # replay files of earlier runs of this property are stale
        if os.path.isdir(REPLAY_DIR):
            for fn in os.listdir(REPLAY_DIR):
                if fn.startswith(prop + "-") and fn.endswith(".json"):
                    try:
                        os.unlink(os.path.join(REPLAY_DIR, fn))
                    except OSError:
                        pass

    # -- coverage -----------------------------------------------------
    def add(self, key, n=1):
        self.counters[key] = self.counters.get(key, 0) + n

    def seen(self, key, item):
        """Record ``item`` in the distinct-set ``key`` (hashable or repr'able)."""
        s = self.distinct.setdefault(key, set())
        if not isinstance(item, (str, bytes, int, tuple, frozenset)):
            item = repr(item)
        s.add(item)

    def seen_many(self, key, items):
        self.distinct.setdefault(key, set()).update(items)

    def ndistinct(self, key):
        return len(self.distinct.get(key, ()))

    def sample(self, obj):
        if len(self.samples) < self.MAX_SAMPLES:
            self.samples.append(obj)

    def cap(self, what):
        if what not in self.caps:
            self.caps.append(what)

    # -- violations ---------------------------------------------------
    def violation(self, signature, message, replay):
        ent = self.by_sig.get(signature)
        if ent is None:
            self.by_sig[signature] = {"count": 1, "message": message, "replay": replay}
        else:
            ent["count"] += 1
            # keep the smallest replay as representative (shortest JSON)
            try:
                if len(json.dumps(replay, default=repr)) < len(
                    json.dumps(ent["replay"], default=repr)
                ):
                    ent["replay"] = replay
                    ent["message"] = message
            except Exception:
                pass

    def merge_violations(self, lst):
        for signature, message, replay in lst:
            self.violation(signature, message, replay)


def load_known(prop):
    if not os.path.exists(KNOWN_FILE):
        return {}
    with open(KNOWN_FILE) as f:
        data = json.load(f)
    out = {}
    for ent in data.get("findings", []):
        if ent.get("property") == prop:
            out[ent["signature"]] = ent
    return out


def finish(ctx, coverage_extra):
    """Write evidence, print verdict lines, return the exit code."""
    known = load_known(ctx.prop)
    unlisted = 0
    known_seen = []
    os.makedirs(REPLAY_DIR, exist_ok=True)
    for sig in sorted(ctx.by_sig):
        ent = ctx.by_sig[sig]
        if sig in known:
            known_seen.append(sig)
            print(
                "KNOWN-FINDING: property=%s %s [signature=%s; %d occurrence(s) this run]"
                % (ctx.prop, known[sig].get("what", ent["message"]), sig, ent["count"])
            )
            continue
        unlisted += 1
        rp = dict(ent["replay"])
        rp.update({"property": ctx.prop, "signature": sig, "message": ent["message"],
                   "occurrences": ent["count"]})
        path = os.path.join(REPLAY_DIR, "%s-%s.json" % (ctx.prop, digest([sig, rp])))
        with open(path, "w") as f:
            json.dump(rp, f, indent=1, default=repr)
        print("  violation signature: %s\n  %s" % (sig, ent["message"][:1500]))
        print("VIOLATION property=%s replay=%s" % (ctx.prop, path))
    cov = dict(coverage_extra)
    cov.setdefault("rule", ctx.rule)
    cov.setdefault("samples", ctx.samples[: ctx.MAX_SAMPLES] or ["<none>"])
    for k, v in ctx.counters.items():
        cov.setdefault(k, v)
    for k, v in ctx.distinct.items():
        cov.setdefault("distinct_" + k, len(v))
    if ctx.caps:
        cov["caps_hit"] = ctx.caps
    if ctx.exhaustive is not None:
        cov.setdefault("exhaustive", bool(ctx.exhaustive) and not ctx.caps)
    if ctx.notes:
        cov["notes"] = ctx.notes
    cov["known_findings_reproduced"] = known_seen
    cov["violation_signatures"] = sorted(s for s in ctx.by_sig if s not in known)
    ev = {
        "property_id": ctx.prop,
        "tier": ctx.tier,
        "seed": ctx.seed,
        "level": ctx.level,
        "coverage": cov,
        "assumptions": ctx.assumptions,
        "wall_s": round(time.time() - ctx.t0, 3),
        "violations": unlisted,
    }
    _check_evidence(ev)
    os.makedirs(EVIDENCE_DIR, exist_ok=True)
    path = os.path.join(EVIDENCE_DIR, "%s.json" % ctx.prop)
    tmp = path + ".tmp%d" % os.getpid()
    with open(tmp, "w") as f:
        json.dump(ev, f, indent=1, default=repr)
    os.replace(tmp, path)
    brief = {k: v for k, v in cov.items() if isinstance(v, (int, float, bool))}
    print("%s tier=%s seed=%d wall=%.1fs %s" % (ctx.prop, ctx.tier, ctx.seed, ev["wall_s"],
                                                json.dumps(brief, sort_keys=True)))
    if unlisted:
        return 1
    print("OK property=%s (no unlisted violation; %d known finding(s) reproduced)"
          % (ctx.prop, len(known_seen)))
    return 0


def _check_evidence(ev):
    """Built-in structural validation (jsonschema is used too when importable)."""
    cov = ev["coverage"]
    lvl = ev["level"]
    generic_ok = (
        isinstance(cov.get("evaluations"), int) and cov["evaluations"] >= 1
        and isinstance(cov.get("distinct_nontrivial"), int) and cov["distinct_nontrivial"] >= 2
        and isinstance(cov.get("samples"), list) and len(cov["samples"]) >= 1
        and isinstance(cov.get("rule"), str)
    )
    if lvl in ("exploration", "fault_enumeration"):
        if not generic_ok:
            raise HarnessError("evidence lacks generic keys: %r" % {k: cov.get(k) for k in (
                "evaluations", "distinct_nontrivial")})
    elif lvl == "model_checking":
        mc = all(k in cov for k in ("states", "transitions", "traces_validated_against_impl", "samples"))
        if mc:
            if cov["states"] < 1 or cov["transitions"] < 1:
                raise HarnessError("model_checking evidence with zero states/transitions")
        elif not generic_ok:
            raise HarnessError("model_checking evidence lacks keys")
    try:
        import jsonschema  # noqa
    except Exception:
        return
    schema_path = "/root/.vp/EVIDENCE.schema.json"
    if os.path.exists(schema_path):
        with open(schema_path) as f:
            jsonschema.validate(json.loads(json.dumps(ev, default=repr)), json.load(f))


# -- process pool -------------------------------------------------------

def _init_worker(counter=None, pin=False):
    signal.signal(signal.SIGINT, signal.SIG_IGN)
    if pin and counter is not None:
        # baton hand-offs between threads are ~2x faster and far less noisy on one CPU
        with counter.get_lock():
            k = counter.value
            counter.value += 1
        try:
            cpus = sorted(os.sched_getaffinity(0))
            os.sched_setaffinity(0, {cpus[k % len(cpus)]})
        except (AttributeError, OSError):
            pass


def _call(arg):
    fn, item = arg
    try:
        return ("ok", fn(item))
    except BaseException:
        return ("err", traceback.format_exc())


def pmap(fn, items, nproc=None, chunksize=1, pin=False, maxtasks=None):
    """Unordered parallel map over a fork pool; a worker exception is a harness error."""
    items = list(items)
    nproc = nproc or NPROC
    if nproc <= 1 or len(items) <= 1:
        for it in items:
            yield fn(it)
        return
    ctx = multiprocessing.get_context("fork")
    counter = ctx.Value("i", 0)
    pool = ctx.Pool(min(nproc, len(items)), initializer=_init_worker, initargs=(counter, pin), maxtasksperchild=maxtasks)
    try:
        it = pool.imap_unordered(_call, [(fn, it) for it in items], chunksize)
        stall = float(os.environ.get("VERIF_STALL_LIMIT", "2700"))
        while True:
            try:
                status, val = it.next(timeout=stall)
            except StopIteration:
                break
            except multiprocessing.TimeoutError:
                # a worker that was killed (OOM, segfault) loses its task and the pool would wait for ever
                raise HarnessError("no work item finished for %.0f s: a worker process probably died or hangs" % stall)
            if status == "err":
                raise HarnessError("worker failed:\n" + val)
            yield val
        pool.close()
        pool.join()
    finally:
        pool.terminate()


def run_isolated(fn, arg, timeout=60):
    """Run fn(arg) in a forked child; returns ('ok', value) | ('exc', text) | ('timeout',)|('died', code)."""
    r, w = os.pipe()
    pid = os.fork()
    if pid == 0:
        code = 0
        try:
            os.close(r)
            try:
                out = ("ok", fn(arg))
            except BaseException as e:  # noqa
                out = ("exc", "%s: %s" % (type(e).__name__, e), traceback.format_exc())
            data = json.dumps(out, default=repr).encode()
            with os.fdopen(w, "wb") as f:
                f.write(data)
        except BaseException:
            code = 3
        finally:
            os._exit(code)
    os.close(w)
    import select
    chunks = []
    deadline = time.time() + timeout
    with os.fdopen(r, "rb") as f:
        while True:
            left = deadline - time.time()
            if left <= 0:
                os.kill(pid, signal.SIGKILL)
                os.waitpid(pid, 0)
                return ("timeout",)
            ready, _, _ = select.select([f], [], [], min(left, 1.0))
            if ready:
                b = os.read(f.fileno(), 1 << 16)
                if not b:
                    break
                chunks.append(b)
    _, status = os.waitpid(pid, 0)
    data = b"".join(chunks)
    if not data:
        return ("died", status)
    return tuple(json.loads(data.decode()))


class Watchdog(BaseException):
    """Raised by time_limit() inside code under test that does not terminate."""


class time_limit:
    """with time_limit(s): ... raises Watchdog in the main thread of the process after s seconds (SIGALRM)."""

    def __init__(self, seconds):
        self.seconds = seconds

    def _fire(self, signum, frame):
        raise Watchdog("no termination within %.0f s" % self.seconds)

    def __enter__(self):
        self.old = signal.signal(signal.SIGALRM, self._fire)
        signal.setitimer(signal.ITIMER_REAL, self.seconds)
        return self

    def __exit__(self, *a):
        signal.setitimer(signal.ITIMER_REAL, 0)
        signal.signal(signal.SIGALRM, self.old)
        return False
