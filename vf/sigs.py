"""E4: exhaustive enumeration of Python signatures and call shapes.

A signature is a tuple of (kind, has_default) with kinds
  'po' positional-only, 'pk' positional-or-keyword, 'va' *args,
  'ko' keyword-only, 'vk' **kwargs
in the only order Python allows.  Parameter names are a, b, c, ... by position
('va' and 'vk' are named va / vk).  Python's own grammar rules decide which
parameter lists exist: no non-default positional after a defaulted one, at
most one *args / **kwargs, no default on them.
"""

import inspect
import itertools

KIND_ORDER = {"po": 0, "pk": 1, "va": 2, "ko": 3, "vk": 4}
NAMES = "abcdefgh"


def enumerate_signatures(max_params):
    """All valid parameter lists with 0..max_params parameters, simplest first."""
    out = []
    opts = [("po", False), ("po", True), ("pk", False), ("pk", True), ("va", False),
            ("ko", False), ("ko", True), ("vk", False)]
    for n in range(max_params + 1):
        for combo in itertools.product(opts, repeat=n):
            kinds = [k for k, _ in combo]
            if any(KIND_ORDER[kinds[i]] > KIND_ORDER[kinds[i + 1]] for i in range(n - 1)):
                continue
            if kinds.count("va") > 1 or kinds.count("vk") > 1:
                continue
            pos = [d for k, d in combo if k in ("po", "pk")]
            if any(pos[i] and not pos[i + 1] for i in range(len(pos) - 1)):
                continue
            out.append(tuple(combo))
    return out


def param_names(sig):
    names = []
    for i, (k, _) in enumerate(sig):
        names.append("va" if k == "va" else "vk" if k == "vk" else NAMES[i])
    return names


def sig_text(sig, with_self=False, default_expr=None):
    """Parameter list source text.  Defaults are ('d', name) tuples unless default_expr given."""
    names = param_names(sig)
    parts = ["self"] if with_self else []
    seen_po = False
    star_done = False
    for i, ((k, d), nm) in enumerate(zip(sig, names)):
        if k != "po" and seen_po:
            parts.append("/")
            seen_po = False
        if k == "po":
            seen_po = True
        if k == "ko" and not star_done:
            parts.append("*")
            star_done = True
        if k == "va":
            parts.append("*va")
            star_done = True
            continue
        if k == "vk":
            parts.append("**vk")
            continue
        if d:
            expr = default_expr(nm) if default_expr else "('d', %r)" % nm
            parts.append("%s=%s" % (nm, expr))
        else:
            parts.append(nm)
    if seen_po:
        parts.append("/")
    return ", ".join(parts)


def sig_label(sig):
    return "(" + sig_text(sig, default_expr=lambda nm: "D") + ")"


def call_shapes(sig, surplus_pos=2, surplus_kw=2):
    """All call shapes: (n_positional, keyword-name tuple).  Includes shapes Python rejects."""
    names = param_names(sig)
    kinds = [k for k, _ in sig]
    pos_idx = [i for i, k in enumerate(kinds) if k in ("po", "pk")]
    has_va = "va" in kinds
    has_vk = "vk" in kinds
    max_pos = len(pos_idx) + (surplus_pos if has_va else 1)
    shapes = []
    for npos in range(max_pos + 1):
        # parameters that may still be given by keyword
        kwable = [names[i] for i in pos_idx[npos:] if kinds[i] == "pk"]
        kwable += [names[i] for i, k in enumerate(kinds) if k == "ko"]
        # also (to let Python reject it) a keyword duplicating a positional: skip, bind rejects
        extra_opts = [()]
        if has_vk:
            extra_opts = [(), ("x1",), ("x1", "x2"), ("x2", "x1")][: 2 + surplus_kw]
            # a keyword spelled like a positional-only parameter lands in **kwargs
            po_names = [names[i] for i, k in enumerate(kinds) if k == "po"]
            if po_names:
                extra_opts = extra_opts + [(po_names[0],), ("x1", po_names[-1])]
            # ... and so does a keyword spelled like the function's own *args / **kwargs parameter
            extra_opts = extra_opts + [("vk",)] + ([("va",), ("va", "vk")] if has_va else [])
            # a keyword named 'self': for a method whose instance parameter is positional-only (def m(self, a, /, **vk))
            # Python routes it to **vk; for other methods Python rejects the call
            extra_opts = extra_opts + [("self",)]
        for r in range(len(kwable) + 1):
            for sub in itertools.combinations(kwable, r):
                for ex in extra_opts:
                    shapes.append((npos, tuple(sub) + ex))
    return shapes


def build_call(shape, pos_value=None, kw_value=None):
    npos, kws = shape
    pv = pos_value or (lambda i: ("p", i))
    kv = kw_value or (lambda n: ("k", n))
    return tuple(pv(i) for i in range(npos)), {n: kv(n) for n in kws}


def python_binding(func, args, kwargs):
    """Reference: how Python binds the call, or None if Python rejects it."""
    s = inspect.signature(func)
    try:
        ba = s.bind(*args, **kwargs)
    except TypeError:
        return None
    ba.apply_defaults()
    return s, ba


_SHADOWS = {}


def interpreter_binding(sig, args, kwargs, method=False):
    """How the running interpreter binds the call on a function with this parameter list ({name: value}), or None
    if it rejects it.  Unlike inspect.Signature.bind (CPython 3.12) this accepts a keyword named like a defaulted
    positional-only parameter left at its default, which Python routes to **kwargs.  method=True: the parameter
    list of a method (instance parameter first), called on an instance - so that a keyword named 'self' is judged
    as Python judges it for a bound method."""
    sh = _SHADOWS.get((sig, method))
    if sh is None:
        ns = {}
        exec("def shadow(%s):\n    return locals()\n" % sig_text(sig, with_self=method), ns)
        sh = _SHADOWS[(sig, method)] = ns["shadow"]
    try:
        if method:
            loc = sh(None, *args, **kwargs)
            loc.pop("self", None)
            return loc
        return sh(*args, **kwargs)
    except TypeError:
        return None
