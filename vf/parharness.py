"""E2 - virtual backend + scenario driver for joblib.Parallel under vf.pysched.

A scenario (``cfg``) describes one Parallel object, the environment variant
and a *program* executed by the caller actor.  ``run_scenario(cfg, choices)``
executes it once on fresh objects under the controlled scheduler and returns
an Observation; oracles live in the individual checks.
"""

import collections.abc
import gc
import itertools
import threading
import time as _real_time
import warnings

import joblib.parallel as JP
from joblib._parallel_backends import (AutoBatchingMixin, FallbackToBackend, ParallelBackendBase,
                                       SequentialBackend)
from joblib._utils import _retrieve_traceback_capturing_wrapped_call, _TracebackCapturingWrapper
from joblib.parallel import BatchCompletionCallBack, Parallel, delayed

from . import pysched
from .pysched import Abort, CoopRLock, Sched, VClock

_INSTRUMENTED = False
DURATIONS = (0.05, 0.0, 0.5, 3.0)   # default first: 'too fast' => batch size grows


class OrderedSet(collections.abc.MutableSet):
    """Stand-in for the builtin set inside joblib.parallel (rebound as module attribute `set`): iteration
    order of a real set of job objects depends on their addresses, which the explorer cannot own; here the
    order is insertion order, or - an environment decision - the reverse.  The MutableSet mixin supplies the
    rest of set's interface (clear, pop, update-style operators, comparisons) so that code using any of it
    does not fail on the stand-in."""

    def __init__(self, it=()):
        self._d = dict.fromkeys(it)

    def clear(self):
        self._d.clear()

    def copy(self):
        return OrderedSet(self._d)

    def update(self, *others):
        for o in others:
            for x in o:
                self._d[x] = None

    def difference_update(self, *others):
        for o in others:
            for x in o:
                self._d.pop(x, None)

    def __repr__(self):
        return "OrderedSet(%r)" % (list(self._d),)

    def add(self, x):
        self._d[x] = None

    def remove(self, x):
        del self._d[x]

    def discard(self, x):
        self._d.pop(x, None)

    def __contains__(self, x):
        return x in self._d

    def __len__(self):
        return len(self._d)

    def __iter__(self):
        items = list(self._d)
        s = pysched._CUR
        if len(items) > 1 and s is not None and pysched.current_actor() is not None and s.abort is None:
            if s.choose(2, "iteration order of a set of jobs", cost=1) == 1:
                items.reverse()
        return iter(items)


class _BadIterable:
    """An input whose __iter__ itself raises."""

    def __init__(self, call_no):
        self.call_no = call_no

    def __iter__(self):
        raise Boom("iterator", self.call_no, -1)


class Boom(Exception):
    """Raised by failing tasks / failing input iterators of the harness."""


class Env:
    """Environment state of one execution (what a backend + workers would hold)."""

    def __init__(self, cfg, sched):
        self.cfg = cfg
        self.s = sched
        self.pending = []          # Batch records not yet completed (FIFO order)
        self.exec_log = []         # (call_no, task index) in execution order
        self.events = []           # ('submit'|'finish'|'cb_start'|'cb_end'|'abort'|'terminate'|'take'..., ...)
        self.n_submitted = 0
        self.n_finished = 0
        self.tasks_submitted = 0
        self.tasks_finished = 0
        self.n_taken = 0
        self.taken = {}            # call_no -> items pulled from the input generator
        self.pullers = {}          # call_no -> set of actor names that pulled
        self.call_no = 0
        self.caller_done = False
        self.withheld = False
        self.withhold_clock = None
        self.withhold_step = None
        self.step_no = 0
        self.stuck = set()         # (call_no, task index) that never complete
        self.fail = set()          # (call_no, task index) that raise
        self.in_callback_actor = None
        self.hold_count = None     # promptness (unordered): (call_no, k): completions stop once k tasks finished
        self.hold_after = None     # promptness: (call_no, i): only batches with all tasks <= i complete
        self.in_gen = None
        self.gen_reentered = False
        self.max_inflight = 0
        self.max_lookahead = 0
        self.max_ahead_finished = 0
        self.max_ahead_exec = 0    # items taken minus tasks executed (meaningful on the sequential n_jobs=1 path)
        self.b_max = 1
        self.parallel = None
        self.inv_violations = []
        self.batch_seq = 0
        self.callbacks_running = 0
        self.stop = {}             # call_no -> (reason, set of id(frame) allowed to finish their slice)
        self.stop_frames = []      # keeps the grace frames alive (ids stay unique)
        self.inflight = {}         # call_no -> batches submitted - finished
        self.max_inflight_by_call = {}
        self.max_lookahead_by_call = {}
        self.max_ahead_by_call = {}
        self.tasks_submitted_by_call = {}
        self.tasks_finished_by_call = {}

    def mark_stop(self, call_no, reason):
        """From now on no item of call_no may be taken, except by a dispatch_one_batch
        invocation that is already past its abort check (its frame is recorded here)."""
        if call_no in self.stop:
            return
        import sys
        grace = set()
        frames = sys._current_frames()
        for a in self.s.actors:
            f = frames.get(a.thread.ident) if a.thread is not None else None
            while f is not None:
                if f.f_code.co_name == "dispatch_one_batch":
                    grace.add(id(f))
                    self.stop_frames.append(f)
                f = f.f_back
        self.stop[call_no] = (reason, grace)

    def inv(self, name, detail):
        if len(self.inv_violations) < 5:
            self.inv_violations.append((name, detail))

    # -- called by tasks ------------------------------------------------
    def run_task(self, call_no, i):
        self.exec_log.append((call_no, i))
        if (call_no, i) in self.fail:
            raise Boom("task", call_no, i)
        return ("r", call_no, i)

    def deliverable(self):
        if not self.pending:
            return ()
        if self.withheld:
            if self.s.clock > self.withhold_clock or self.step_no != self.withhold_step:
                self.withheld = False
            else:
                return []
        out = []
        for b in self.pending:
            if b.stuck:
                continue
            if self.hold_after is not None and not b.zombie:
                c, i = self.hold_after
                if b.call_no == c and min(b.idxs, default=-1) > i:
                    continue
            if self.hold_count is not None and not b.zombie:
                c, k = self.hold_count
                if b.call_no == c and self.tasks_finished_by_call.get(c, 0) >= k:
                    continue
            out.append(b)
        if self.cfg.get("order") == "fifo":
            return out[:1]
        return out


class Batch:
    __slots__ = ("id", "func", "callback", "call_no", "idxs", "stuck", "zombie", "submit_clock")

    def __init__(self, id, func, callback, call_no, idxs, stuck, clock):
        self.id = id
        self.func = func
        self.callback = callback
        self.call_no = call_no
        self.idxs = idxs
        self.stuck = stuck
        self.zombie = False
        self.submit_clock = clock


class VBackend(AutoBatchingMixin, ParallelBackendBase):
    """Virtual backend: submit() only records the batch; the completion actor does the rest."""

    supports_retrieve_callback = True
    uses_threads = True
    supports_sharedmem = True

    def __init__(self, env, **kw):
        super().__init__(**kw)
        self.env = env

    def effective_n_jobs(self, n_jobs):
        if n_jobs == 0:
            raise ValueError("n_jobs == 0 in Parallel has no meaning")
        if n_jobs < 0:
            n_jobs = max(4 + 1 + n_jobs, 1)
        return n_jobs

    def configure(self, n_jobs=1, parallel=None, **kw):
        n_jobs = self.effective_n_jobs(n_jobs)
        if n_jobs == 1:
            raise FallbackToBackend(SequentialBackend(nesting_level=self.nesting_level))
        self.parallel = parallel
        return n_jobs

    def compute_batch_size(self):
        b = super().compute_batch_size()
        self.env.b_max = max(self.env.b_max, b)
        return b

    def submit(self, func, callback=None):
        env = self.env
        idxs = [args[1] for (_f, args, _k) in func.items]
        call_no = func.items[0][1][0] if func.items else env.call_no
        stuck = any((call_no, i) in env.stuck for i in idxs)
        env.batch_seq += 1
        b = Batch(env.batch_seq, func, callback, call_no, idxs, stuck, env.s.clock)
        env.pending.append(b)
        env.n_submitted += 1
        env.tasks_submitted += len(idxs)
        env.events.append(("submit", call_no, tuple(idxs), env.phase()))
        env.note_bounds()
        env.inflight[call_no] = env.inflight.get(call_no, 0) + 1
        env.tasks_submitted_by_call[call_no] = env.tasks_submitted_by_call.get(call_no, 0) + len(idxs)
        if env.inflight[call_no] > env.max_inflight_by_call.get(call_no, 0):
            env.max_inflight_by_call[call_no] = env.inflight[call_no]
        if call_no in env.stop and call_no == env.call_no:
            env.inv("submit-after-stop", "batch %r of call %d submitted after %s" % (idxs, call_no, env.stop[call_no][0]))
        me = pysched.current_actor()
        if env.cfg.get("inline") and not stuck and me is not None and env.s.abort is None:
            # loky: the future may already be finished when add_done_callback runs => inline callback
            if env.s.choose(2, "inline completion at submit", cost=1) == 1:
                complete_batch(env, b, me, inline=True)
        return b

    def retrieve_result_callback(self, out):
        return _retrieve_traceback_capturing_wrapped_call(out)

    def _join_callback_thread(self):
        # The built-in backends join the thread that runs the completion callbacks when they abort or
        # terminate (ThreadPool/Pool.terminate join the result handler, loky's shutdown joins the executor
        # manager thread): an in-progress callback finishes before abort_everything()/terminate() return.
        env = self.env
        me = pysched.current_actor()
        if me is None or env.s.abort is not None or env.in_callback_actor is me:
            return
        env.s.block_until(me, lambda: env.callbacks_running == 0, "join of the callback thread")

    def abort_everything(self, ensure_ready=True):
        env = self.env
        self._join_callback_thread()
        env.events.append(("abort", env.call_no, ensure_ready))
        if env.cfg.get("abort", "drop") == "drop":
            env.pending[:] = []
        else:
            for b in env.pending:
                b.zombie = True

    def terminate(self):
        env = self.env
        self._join_callback_thread()
        env.events.append(("terminate", env.call_no))
        if env.cfg.get("abort", "drop") == "drop":
            env.pending[:] = []
        else:
            for b in env.pending:
                b.zombie = True
        self.reset_batch_stats()


def _phase(self):
    p = self.parallel
    if p is None:
        return None
    return (self.call_no, getattr(p, "_running", None), getattr(p, "_aborting", None))


Env.phase = _phase


def _note_bounds(self):
    infl = self.n_submitted - self.n_finished
    self.max_inflight = max(self.max_inflight, infl)


Env.note_bounds = _note_bounds


def complete_batch(env, b, me, inline=False):
    """Run batch b and deliver its completion callback (as the backend's callback thread would)."""
    s = env.s
    env.pending.remove(b)
    out = _TracebackCapturingWrapper(b.func)()
    env.n_finished += 1
    env.tasks_finished += len(b.idxs)
    env.inflight[b.call_no] = env.inflight.get(b.call_no, 0) - 1
    env.tasks_finished_by_call[b.call_no] = env.tasks_finished_by_call.get(b.call_no, 0) + len(b.idxs)
    env.events.append(("finish", b.call_no, tuple(b.idxs), b.zombie))
    if env.cfg.get("batch_size") == "auto" and not inline:
        d = DURATIONS[s.choose(len(DURATIONS), "batch duration", cost=1)]
        s.clock = max(s.clock, b.submit_clock) + d
    if not inline:
        s.point(me, "completion of batch %s" % (b.idxs,))
    env.callbacks_running += 1
    prev = env.in_callback_actor
    env.in_callback_actor = me
    try:
        b.callback(out)
    finally:
        env.callbacks_running -= 1
        env.in_callback_actor = prev
    env.events.append(("cb_end", b.call_no, tuple(b.idxs)))
    if any((b.call_no, i) in env.fail for i in b.idxs):
        env.mark_stop(b.call_no, "a task failure was registered")


def completion_body(env, me_holder):
    s = env.s
    me = me_holder[0]

    def runnable():
        return env.caller_done or bool(env.deliverable())

    while True:
        s.block_until(me, runnable, "completion actor idle")
        cands = env.deliverable()
        if not cands:
            if env.caller_done:
                break
            continue
        n = len(cands)
        can_withhold = bool(env.cfg.get("withhold")) and not env.caller_done
        if can_withhold and s.choose(2, "deliver or withhold a completion", cost=1, kind="env") == 1:
            env.withheld = True
            env.withhold_clock = s.clock
            env.withhold_step = env.step_no
            env.events.append(("withhold", env.call_no))
            continue
        c = s.choose(n, "which batch completes (%d pending)" % n, cost=1, kind="ord")
        complete_batch(env, cands[c], me)


def gen_inputs(env, call_no, n, iter_fail_at=None):
    """Input iterable of a call; instrumented (its lines are scheduling points)."""
    for i in range(n):
        a = pysched.current_actor()
        if env.in_gen is not None:
            env.gen_reentered = True
        env.in_gen = a
        if iter_fail_at is not None and i == iter_fail_at:
            env.in_gen = None
            raise Boom("iterator", call_no, i)
        env.taken[call_no] = env.taken.get(call_no, 0) + 1
        env.n_taken += 1
        env.pullers.setdefault(call_no, set()).add(a.name if a is not None else "?")
        env.events.append(("take", call_no, i, a.name if a is not None else "?", env.phase(),
                           env.tasks_finished, env.tasks_submitted))
        ahead_exec = env.taken[call_no] - sum(1 for (cc, _i) in env.exec_log if cc == call_no)
        if ahead_exec > env.max_ahead_exec:
            env.max_ahead_exec = ahead_exec
        la = env.taken[call_no] - env.tasks_submitted_by_call.get(call_no, 0)
        if la > env.max_lookahead_by_call.get(call_no, 0):
            env.max_lookahead_by_call[call_no] = la
        ahead = env.taken[call_no] - env.tasks_finished_by_call.get(call_no, 0)
        if ahead > env.max_ahead_by_call.get(call_no, 0):
            env.max_ahead_by_call[call_no] = ahead
        if call_no in env.stop:
            import sys
            f = sys._getframe()
            ok = False
            grace = env.stop[call_no][1]
            while f is not None:
                if id(f) in grace:
                    ok = True
                    break
                f = f.f_back
            if not ok:
                env.inv("take-after-stop", "item %d of call %d taken by %s after %s" % (
                    i, call_no, a.name if a is not None else "?", env.stop[call_no][0]))
        item = delayed(env.run_task)(call_no, i)
        env.in_gen = None
        yield item


def ensure_instrumented():
    global _INSTRUMENTED
    if _INSTRUMENTED:
        return
    skip = ("__init__", "print_progress", "_print", "__repr__", "_initialize_backend", "_effective_n_jobs",
            "format", "debug", "warn", "info")
    funcs = pysched.class_functions(Parallel, exclude=skip)
    funcs += pysched.class_functions(BatchCompletionCallBack, exclude=("__init__",))
    funcs.append(gen_inputs)
    pysched.instrument(funcs)
    _INSTRUMENTED = True


class Observation:
    def __init__(self):
        self.steps = []        # per program step: dict(kind, result|exc)
        self.verdict = "ok"
        self.env = None
        self.sched = None
        self.decisions = []


def _exc_desc(e):
    return (type(e).__name__, tuple(repr(a) for a in getattr(e, "args", ())))


def make_state_fn(env):
    def state_fn():
        p = env.parallel
        if p is None:
            return (env.step_no,)
        d = p.__dict__
        jobs = d.get("_jobs", ())
        return (env.step_no, d.get("n_dispatched_tasks"), d.get("n_completed_tasks"),
                d.get("_iterating"), d.get("_aborting"), d.get("_running"),
                len(jobs), len(env.pending), env.n_finished, env.n_taken,
                env.withheld, env.callbacks_running)
    return state_fn


def run_scenario(cfg, choices=(), expect=None, horizon=None, record_states=True):
    """One controlled execution of cfg['program'] on one Parallel object."""
    ensure_instrumented()
    obs = Observation()
    s = Sched(choices, expect, horizon=horizon or cfg.get("horizon", 30000), record_states=record_states)
    env = Env(cfg, s)
    obs.env = env
    obs.sched = s
    s.state_fn = make_state_fn(env)
    timeout = cfg.get("timeout")
    clock = VClock(s, has_deadline=lambda: timeout is not None)
    me_holder = [None]

    def caller_body():
        try:
            _caller_program(cfg, env, obs)
        finally:
            env.caller_done = True

    caller = s.add_actor("caller", caller_body)
    comp = s.add_actor("completer", lambda: completion_body(env, me_holder))
    me_holder[0] = comp
    old_time = JP.time
    JP.time = clock
    JP.set = OrderedSet
    gc_was = gc.isenabled()
    gc.disable()
    try:
        with warnings.catch_warnings():
            warnings.simplefilter("ignore")
            s.run()
    finally:
        JP.time = old_time
        if hasattr(JP, "set"):
            del JP.set
        if gc_was:
            gc.enable()
    obs.verdict = s.abort or "ok"
    obs.decisions = s.decisions
    if caller.error is not None:
        obs.steps.append({"kind": "harness", "exc": _exc_desc(caller.error), "error": caller.error})
    if comp.error is not None:
        obs.steps.append({"kind": "completer", "exc": _exc_desc(comp.error), "error": comp.error})
    return obs


def _caller_program(cfg, env, obs):
    kw = dict(n_jobs=cfg["n_jobs"], batch_size=cfg.get("batch_size", 1),
              pre_dispatch=cfg.get("pre_dispatch", "2 * n_jobs"), return_as=cfg.get("return_as", "list"),
              timeout=cfg.get("timeout"), verbose=0)
    backend = VBackend(env, nesting_level=0)
    p = Parallel(backend=backend, **kw)
    if hasattr(p, "_lock"):
        p._lock = CoopRLock("Parallel._lock")
    env.parallel = p
    gens = {}
    for step in cfg["program"]:
        env.step_no += 1
        kind = step[0]
        rec = {"kind": kind}
        obs.steps.append(rec)
        try:
            if kind == "enter":
                p.__enter__()
            elif kind == "exit":
                p.__exit__(None, None, None)
            elif kind == "call":
                spec = step[1]
                env.call_no += 1
                c = env.call_no
                rec["call_no"] = c
                rec["tasks_finished_before"] = dict(env.tasks_finished_by_call)
                n = spec["n"]
                for i in spec.get("fail", ()):
                    env.fail.add((c, i))
                for i in spec.get("stuck", ()):
                    env.stuck.add((c, i))
                if spec.get("hold_after") is not None:
                    env.hold_after = (c, spec["hold_after"])
                if spec.get("hold_count") is not None:
                    env.hold_count = (c, spec["hold_count"])
                if spec.get("iter_raises"):
                    inp = _BadIterable(c)
                elif spec.get("input", "gen") == "gen":
                    inp = gen_inputs(env, c, n, spec.get("iter_fail_at"))
                else:
                    inp = [delayed(env.run_task)(c, i) for i in range(n)]
                out = p(inp)
                if kw["return_as"] == "list":
                    rec["result"] = out
                else:
                    gens[c] = out
                    rec["gen"] = True
                    rec["taken_at_return"] = env.taken.get(c, 0)
                del out
            elif kind == "next":       # pull k results from the generator of call c
                c, k = step[1], step[2]
                rec["call_no"] = c
                got = rec.setdefault("got", [])
                g = gens[c]
                mode = step[3] if len(step) > 3 else None
                base = step[4] if len(step) > 4 else 0
                for _ in range(k):
                    if mode == "ordered":
                        env.hold_after = (c, base + len(got))
                    elif mode == "unordered":
                        env.hold_count = (c, base + len(got) + 1)
                    got.append(next(g))
                del g
            elif kind == "exhaust":
                c = step[1]
                rec["call_no"] = c
                env.hold_after = None
                env.hold_count = None
                got = rec.setdefault("got", [])
                g = gens[c]
                for v in g:
                    got.append(v)
                del g
            elif kind == "close":
                c = step[1]
                rec["call_no"] = c
                rec["taken_before"] = dict(env.taken)
                rec["submitted_before"] = env.n_submitted
                env.hold_after = env.hold_count = None
                gens[c].close()
                env.mark_stop(c, "close() returned")
            elif kind == "drop":
                c = step[1]
                rec["call_no"] = c
                rec["taken_before"] = dict(env.taken)
                rec["submitted_before"] = env.n_submitted
                env.hold_after = env.hold_count = None
                del gens[c]
                env.mark_stop(c, "the generator was dropped")
            elif kind == "release":    # stop withholding completions
                env.hold_after = None
                env.hold_count = None
            else:
                raise ValueError(kind)
        except Abort:
            raise
        except StopIteration as e:
            rec["exc"] = _exc_desc(e)
        except BaseException as e:  # noqa
            rec["exc"] = _exc_desc(e)
            rec["exc_obj_type"] = type(e)
        rec["taken_after"] = dict(env.taken)
        rec["submitted_after"] = env.n_submitted
        rec["exec_len_after"] = len(env.exec_log)
    gens.clear()
