"""Runs ONE loky fault scenario in this process (started in its own session by vf.checks.c10).

usage: python -m vf.c10_scenario <spec.json> <result.json>
"""
import json
import os
import sys
import time
import traceback


from vf.c10_tasks import KillOnUnpickle, task  # noqa


def _signum(name):
    """'SIGKILL' -> signal.SIGKILL; 'SIGRTMIN+1' -> a real-time signal that has no member in signal.Signals."""
    import signal as _s
    if "+" in name:
        base, off = name.split("+")
        return getattr(_s, base) + int(off)
    return getattr(_s, name)


def main():
    spec = json.load(open(sys.argv[1]))
    out_path = sys.argv[2]
    plan = json.loads(os.environ["VF_C10_PLAN"])
    d = plan["dir"]
    import warnings
    warnings.simplefilter("ignore")
    from joblib import Parallel, delayed
    from joblib.externals.loky.process_executor import BrokenProcessPool
    results = []

    def write():
        with open(out_path + ".tmp", "w") as f:
            json.dump({"calls": results, "pid": os.getpid()}, f)
        os.replace(out_path + ".tmp", out_path)

    p = Parallel(n_jobs=spec["n_jobs"], return_as=spec.get("return_as", "list"), backend="loky")
    cm = p if spec.get("managed") else None
    if cm is not None:
        cm.__enter__()
    try:
        for k, call in enumerate(spec["calls"]):
            with open(os.path.join(d, "current_call.tmp"), "w") as f:
                f.write(str(k))
            os.replace(os.path.join(d, "current_call.tmp"), os.path.join(d, "current_call"))
            if call.get("kind") == "idle-kill":
                # kill idle workers (pids reported by earlier tasks) from outside
                import signal
                pids = sorted({int(x) for x in open(os.path.join(d, "pids")).read().split()})
                victims = pids[:1] if call.get("victims", "first") == "first" else pids
                killed = []
                for pid in victims:
                    try:
                        os.kill(pid, _signum(call.get("action", "SIGKILL")))
                        killed.append(pid)
                    except OSError:
                        pass
                time.sleep(call.get("settle", 0.3))
                results.append({"kind": "idle-kill", "killed": killed})
                write()
                continue
            n = call["n"]
            mode = call.get("mode", "plain")
            t0 = time.time()
            rec = {"kind": "call", "n": n}
            results.append(rec)
            write()
            try:
                args = [KillOnUnpickle(i) if mode == "unpickle-args" else i for i in range(n)]
                if "n_jobs" in call:
                    # a fresh Parallel object per call; the same worker environment for every n_jobs (inner_max_num_threads
                    # fixed), so that the loky executor is re-used and *resized* at the start of the call
                    from joblib import parallel_config
                    with parallel_config(backend="loky", inner_max_num_threads=1):
                        p = Parallel(n_jobs=call["n_jobs"], return_as=spec.get("return_as", "list"))
                        out = p(delayed(task)(i, args[i], mode) for i in range(n))
                else:
                    out = p(delayed(task)(i, args[i], mode) for i in range(n))
                out = list(out)
                rec["result"] = out
                rec["ok"] = out == [i * i for i in range(n)]
            except BaseException as e:  # noqa
                rec["exc"] = type(e).__name__
                rec["broken_pool_family"] = isinstance(e, BrokenProcessPool)
                rec["msg"] = str(e)[:300]
                if not isinstance(e, Exception) or not rec["broken_pool_family"]:
                    rec["tb"] = traceback.format_exc()[-1500:]
            rec["wall"] = round(time.time() - t0, 3)
            write()
    finally:
        if cm is not None:
            try:
                cm.__exit__(None, None, None)
            except BaseException as e:  # noqa
                results.append({"kind": "exit", "exc": type(e).__name__, "msg": str(e)[:200]})
        results.append({"kind": "done"})
        write()


if __name__ == "__main__":
    main()
