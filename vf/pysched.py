"""E1 - deviation-bounded stateless explorer for real Python threads.

Actors are real threads; exactly one holds the baton.  Scheduling points are
sys.monitoring LINE events on a whitelist of code objects (line mode), CALL
events on file-system builtins (fs mode, see vf.fsmode) and explicit points in
the cooperative primitives below.  An execution is a deterministic function of
the sequence of choices taken at decision points, so a state is a choice
prefix, re-executed on fresh objects.
"""

import _thread
import sys
import threading
import types

mon = sys.monitoring
TOOL = 4
_tool_ready = False
_CUR = None  # the Sched of the execution in progress (one per process at a time)
_tls = threading.local()


class Abort(BaseException):
    """Raised inside actors to unwind an execution that was given a verdict."""


class Divergence(Exception):
    """Replaying a prefix did not reproduce the recorded decision points."""


class _Baton:
    """Binary semaphore on a raw lock (threading.Semaphore is pure Python and slow)."""

    __slots__ = ("lk",)

    def __init__(self):
        self.lk = _thread.allocate_lock()
        self.lk.acquire()

    def acquire(self):
        self.lk.acquire()

    def release(self):
        try:
            self.lk.release()
        except RuntimeError:
            pass


class Actor:
    __slots__ = ("name", "idx", "sem", "state", "wait", "thread", "pos", "steps", "sleeping", "body", "error")

    def __init__(self, name, idx, body):
        self.name = name
        self.idx = idx
        self.sem = _Baton()
        self.state = "ready"
        self.wait = None
        self.thread = None
        self.pos = ("", 0)
        self.steps = 0
        self.sleeping = False
        self.body = body
        self.error = None


class Decision:
    __slots__ = ("kind", "n", "chosen", "cost", "label")

    def __init__(self, kind, n, chosen, cost, label):
        self.kind = kind      # 'thr' | 'env'
        self.n = n
        self.chosen = chosen
        self.cost = cost      # cost of taking a non-default alternative here
        self.label = label


class Sched:
    def __init__(self, choices=(), expect=None, horizon=20000, state_fn=None, record_states=True):
        self.choices = list(choices)
        self.expect = expect
        self.horizon = horizon
        self.actors = []
        self.decisions = []
        self.npoints = 0
        self.abort = None
        self.done = threading.Event()
        self.current = None
        self.clock = 0.0
        self.state_fn = state_fn
        self.record_states = record_states
        self.fps = set()
        self.edges = set()
        self._last_fp = None
        self.switch_trace = []   # (point number, from, to, label) for replay files
        self.lone_wakeups = 0
        self.leaked = 0
        self.stuck = False
        self.wall_limit = 120.0

    # -- set-up -------------------------------------------------------
    def add_actor(self, name, body):
        a = Actor(name, len(self.actors), body)
        self.actors.append(a)
        return a

    def _thread_main(self, a):
        _tls.actor = a
        a.sem.acquire()
        try:
            if self.abort is None:
                a.body()
        except Abort:
            pass
        except BaseException as e:  # noqa - actor bodies are expected to catch their own
            a.error = e
        finally:
            _tls.actor = None
            self._finish(a)

    def run(self):
        global _CUR
        if _CUR is not None:
            raise RuntimeError("nested executions")
        _CUR = self
        try:
            for a in self.actors:
                a.thread = threading.Thread(target=self._thread_main, args=(a,), daemon=True,
                                            name="vf-" + a.name)
                a.thread.start()
            first = self.actors[0]
            self.current = first
            first.sem.release()
            if not self.done.wait(self.wall_limit):
                # an actor is blocked on something the scheduler does not own (a real lock, real I/O)
                self.stuck = True
                self._do_abort("stuck")
                self.done.wait(5.0)
            for a in self.actors:
                a.thread.join(5.0)
                if a.thread.is_alive():
                    self.leaked += 1
        finally:
            _CUR = None
        return self

    # -- scheduling ---------------------------------------------------
    def _enabled(self, me):
        en = []
        for a in self.actors:
            if a.state != "ready":
                continue
            w = a.wait
            if w is None or w():
                en.append(a)
        if me is not None and me in en:
            en.remove(me)
            en.insert(0, me)
        return en

    def _fingerprint(self):
        st = self.state_fn() if self.state_fn is not None else ()
        return hash((tuple([a.pos for a in self.actors]), st))

    def _do_abort(self, verdict):
        if self.abort is None:
            self.abort = verdict
        for a in self.actors:
            a.sem.release()
        self.done_check()

    def done_check(self):
        if all(a.state == "done" for a in self.actors):
            self.done.set()

    def decide(self, kind, n, cost, label):
        i = len(self.decisions)
        if i < len(self.choices):
            c = self.choices[i]
            if self.expect is not None and i < len(self.expect):
                if self.expect[i] != hash((kind, n, label)):
                    self._do_abort("divergence")
                    raise Divergence("decision %d: got %r which is not what the parent execution recorded" % (i, (kind, n, label)))
            if c >= n:
                self._do_abort("divergence")
                raise Divergence("decision %d: choice %d out of range %d (%s)" % (i, c, n, label))
        else:
            c = 0
        self.decisions.append(Decision(kind, n, c, cost, label))
        return c

    def choose(self, n, label, cost=1, kind="env"):
        """Environment decision with n options; option 0 is the default answer."""
        if self.abort is not None:
            raise Abort()
        if n <= 1:
            return 0
        return self.decide(kind, n, cost, label)

    def point(self, me, label=None):
        """Scheduling point reached by the running actor `me`."""
        if self.abort is not None:
            if me.wait is not None:
                raise Abort()
            return
        self.npoints += 1
        me.steps += 1
        if self.npoints > self.horizon:
            self._do_abort("horizon")
            raise Abort()
        if self.record_states:
            fp = self._fingerprint()
            self.fps.add(fp)
            if self._last_fp is not None:
                self.edges.add((self._last_fp, fp))
            self._last_fp = fp
        en = self._enabled(me)
        if not en:
            self._do_abort("deadlock")
            raise Abort()
        if len(en) == 1:
            nxt = en[0]
        else:
            me_enabled = en[0] is me
            c = self.decide("thr", len(en), 1 if me_enabled else 0,
                            label if label is not None else (me.idx, me.pos))
            nxt = en[c]
        if nxt is not me:
            self.switch_trace.append((self.npoints, me.name, nxt.name, me.pos if label is None else label))
            self.current = nxt
            nxt.sem.release()
            me.sem.acquire()
            if self.abort is not None:
                raise Abort()

    def block_until(self, me, cond, label=None):
        """Park `me` until cond() holds (evaluated by whoever runs)."""
        if self.abort is not None:
            raise Abort()
        if cond():
            return
        me.wait = cond
        try:
            self.point(me, label or ("%s blocked" % me.name))
        finally:
            me.wait = None

    def _finish(self, a):
        a.state = "done"
        if self.abort is not None:
            self.done_check()
            return
        en = self._enabled(None)
        if en:
            if len(en) > 1:
                try:
                    c = self.decide("thr", len(en), 0, "%s finished" % a.name)
                except Divergence:
                    return
                nxt = en[c]
            else:
                nxt = en[0]
            self.current = nxt
            nxt.sem.release()
        elif all(x.state == "done" for x in self.actors):
            self.done.set()
        else:
            self._do_abort("deadlock")


def current_actor():
    return getattr(_tls, "actor", None)


# -- sys.monitoring plumbing ----------------------------------------------

def _line_cb(code, line):
    s = _CUR
    if s is None:
        return
    a = getattr(_tls, "actor", None)
    if a is None:
        return
    a.pos = (code.co_name, line)
    s.point(a)


def _all_codes(code, acc):
    acc.append(code)
    for c in code.co_consts:
        if isinstance(c, types.CodeType):
            _all_codes(c, acc)


def instrument(funcs):
    """Enable LINE events on the given functions / code objects (and their nested code)."""
    global _tool_ready
    if not _tool_ready:
        mon.use_tool_id(TOOL, "vf-pysched")
        mon.register_callback(TOOL, mon.events.LINE, _line_cb)
        _tool_ready = True
    n = 0
    for f in funcs:
        code = f if isinstance(f, types.CodeType) else getattr(f, "__code__", None)
        if code is None and hasattr(f, "__func__"):
            code = f.__func__.__code__
        if code is None:
            continue
        acc = []
        _all_codes(code, acc)
        for c in acc:
            mon.set_local_events(TOOL, c, mon.events.LINE)
            n += 1
    return n


def class_functions(cls, exclude=()):
    out = []
    for k, v in vars(cls).items():
        if k in exclude:
            continue
        if isinstance(v, (staticmethod, classmethod)):
            v = v.__func__
        if isinstance(v, property):
            v = v.fget
        if isinstance(v, types.FunctionType):
            out.append(v)
    return out


# -- cooperative primitives -----------------------------------------------

class CoopRLock:
    """Re-entrant lock with the threading.RLock protocol, blocking through the scheduler."""

    def __init__(self, name="lock"):
        self.owner = None
        self.count = 0
        self.name = name

    def acquire(self, blocking=True, timeout=-1):
        s = _CUR
        me = getattr(_tls, "actor", None)
        if s is None or me is None:
            # outside an execution (construction, teardown): uncontended by construction
            self.owner = me
            self.count += 1
            return True
        if self.owner is me:
            self.count += 1
            return True
        if self.owner is not None:
            if not blocking:
                return False
            s.block_until(me, lambda: self.owner is None, "%s waits for %s" % (me.name, self.name))
        self.owner = me
        self.count = 1
        return True

    def release(self):
        self.count -= 1
        if self.count <= 0:
            self.count = 0
            self.owner = None

    def __enter__(self):
        self.acquire()
        return self

    def __exit__(self, *a):
        self.release()
        return False

    def locked(self):
        return self.owner is not None


class VClock:
    """Stand-in for the `time` module inside the code under test."""

    def __init__(self, sched, max_lone=200, has_deadline=None):
        self.s = sched
        self.max_lone = max_lone
        self.has_deadline = has_deadline or (lambda: False)
        self._lone_sig = None
        self._lone_count = 0

    def time(self):
        return self.s.clock

    def monotonic(self):
        return self.s.clock

    def perf_counter(self):
        return self.s.clock

    def sleep(self, d):
        s = self.s
        me = getattr(_tls, "actor", None)
        if me is None or s.abort is not None:
            if s.abort is not None:
                raise Abort()
            return
        # a sleep is a yield: the sleeper is disabled until another actor took a step;
        # if nobody else can run, the virtual clock advances (a timer firing).
        stamp = sum(a.steps for a in s.actors if a is not me)
        others = [a for a in s.actors if a is not me]

        def other_enabled():
            for a in others:
                if a.state == "ready" and (a.wait is None or a.wait()):
                    return True
            return False

        def cond():
            if sum(a.steps for a in others) != stamp:
                return True
            return not other_enabled()

        if other_enabled():
            me.sleeping = True
            try:
                s.block_until(me, cond, "%s sleeps" % me.name)
            finally:
                me.sleeping = False
            self._lone_sig = None
            self._lone_count = 0
        else:
            # lone wake-up
            s.clock += d
            s.lone_wakeups += 1
            sig = s.state_fn() if s.state_fn is not None else None
            if sig == self._lone_sig:
                self._lone_count += 1
            else:
                self._lone_sig = sig
                self._lone_count = 1
            limit = self.max_lone if self.has_deadline() else 2
            if self._lone_count > limit:
                s._do_abort("hang")
                raise Abort()
            s.point(me, "%s lone wake-up" % me.name)


# -- search ---------------------------------------------------------------

class Explorer:
    """Iterative deviation bounding over the decision tree of `run(choices, expect)`.

    run(choices, expect) must return an object with .decisions (list of Decision)
    and is judged by on_exec(execution).  allowed(pb, eb, ob) says whether a prefix that
    used pb pre-emptions, eb environment deviations and ob completion-order deviations
    may still be explored.
    """

    def __init__(self, run, allowed, on_exec, max_execs=None, shard=None):
        self.shard = shard    # (k, m): explore only every m-th root-level alternative (the k-th residue)
        self.run = run
        self.allowed = allowed
        self.on_exec = on_exec
        self.max_execs = max_execs
        self.execs = 0
        self.capped = False
        self.max_decisions = 0

    def explore(self):
        import gc
        stack = [((), None)]
        gc_was = gc.isenabled()
        gc.disable()
        try:
            self._explore(stack)
        finally:
            if gc_was:
                gc.enable()
        return self

    def _explore(self, stack):
        import gc
        while stack:
            if self.execs % 256 == 255:
                gc.collect()
            if self.max_execs is not None and self.execs >= self.max_execs:
                self.capped = True
                break
            prefix, expect = stack.pop()
            x = self.run(prefix, expect)
            self.execs += 1
            if not (self.shard and self.shard[0] != 0 and not prefix):
                self.on_exec(x, prefix)
            ds = x.decisions
            self.max_decisions = max(self.max_decisions, len(ds))
            pb = eb = ob = 0
            exp = None
            npre = len(prefix)
            allowed = self.allowed
            ok = {"thr": allowed(1, 0, 0), "env": allowed(0, 1, 0), "ord": allowed(0, 0, 1)}
            for i, d in enumerate(ds):
                if i >= npre and d.n > 1:
                    k = d.kind
                    if d.cost == 0 or ok[k]:
                        if exp is None:
                            exp = tuple([hash((q.kind, q.n, q.label)) for q in ds])
                            chosen = tuple([q.chosen for q in ds])
                        for alt in range(1, d.n):
                            if self.shard and not prefix:
                                self._rootalt = getattr(self, "_rootalt", -1) + 1
                                if self._rootalt % self.shard[1] != self.shard[0]:
                                    continue
                            stack.append((chosen[:i] + (alt,), exp[:i + 1]))
                if d.chosen != 0 and d.cost:
                    if d.kind == "thr":
                        pb += d.cost
                    elif d.kind == "ord":
                        ob += d.cost
                    else:
                        eb += d.cost
                    ok = {"thr": allowed(pb + 1, eb, ob), "env": allowed(pb, eb + 1, ob),
                          "ord": allowed(pb, eb, ob + 1)}
        return self
